---------------------------- MODULE TokTrace ----------------------------
EXTENDS Tok, Json, IOUtils, TLCExt
Traces == JsonDeserialize(IOEnv.TRACE_FILE)
VARIABLES tid, l
Ev == Traces[tid].ev
tvars == <<vars, tid, l>>
TInit == /\ tid \in 1..Len(Traces) /\ l = 1
         /\ p = Traces[tid].p
         /\ stream = <<>> /\ pc = "read" /\ st = "SILENCE" /\ buf = <<>>
         /\ sil = 0 /\ icount = 0 /\ startf = 0 /\ cur = -1 /\ contig = FALSE
         /\ pending = NoTok /\ out = <<>>
Is(e) == l <= Len(Ev) /\ Ev[l].e = e /\ l' = l + 1 /\ tid' = tid
TR == Is("R") /\ ReadFrame /\ cur' = Ev[l].i
TV == Is("V") /\ Ev[l].i = cur /\ LET v == Ev[l].v IN
        SilSkip(v) \/ SilStart(v) \/ PNValid(v) \/ PNInvalid(v) \/ NValid(v) \/ NInvalid(v) \/ PSValid(v) \/ PSInvalid(v)
TT == Is("T") /\ Emit /\ pending.start = Ev[l].s /\ pending.end = Ev[l].t /\ pending.frames = Ev[l].fr
TEOS == Is("EOS") /\ ReadEOS
TEND == Is("END") /\ pc = "done" /\ UNCHANGED vars
TNext == TR \/ TV \/ TT \/ TEOS \/ TEND
TSpec == TInit /\ [][TNext]_tvars
Progress == TLCSet(tid, l)
Post == /\ \A t \in 1..Len(Traces) : PrintT(<<"TRACE", t, TLCGet(t), Len(Traces[t].ev) + 1>>)
=========================================================================
