import sys, json, random
sys.path.insert(0, '/tmp/scratch_repo')   # fixed tree
if len(sys.argv) > 3 and sys.argv[3] == 'orig':
    sys.path[0] = '/repo'
from auditok.core import StreamTokenizer
rng = random.Random(int(sys.argv[1])); NT = int(sys.argv[2])
traces = []
for t in range(NT):
    mx = rng.randint(1, 8); mn = rng.randint(1, mx); sl = rng.randint(0, mx - 1)
    im = min(mx - 1, rng.choice([0, 0, 1, rng.randint(0, mx - 1)])); isil = rng.randint(0, 3)
    strict = rng.random() < .5; drop = rng.random() < .5
    n = rng.randint(0, 60); pv = rng.choice([.3, .5, .7, .9])
    frames = [rng.random() < pv for _ in range(n)]
    ev = []
    class Src:
        i = 0
        def read(self):
            if self.i >= n:
                ev.append({"e": "EOS"}); return None
            ev.append({"e": "R", "i": self.i}); self.i += 1
            return (self.i - 1, frames[self.i - 1])
    def val(fr):
        ev.append({"e": "V", "i": fr[0], "v": fr[1]}); return fr[1]
    mode = (2 if strict else 0) | (4 if drop else 0)
    tk = StreamTokenizer(val, mn, mx, sl, init_min=im, init_max_silence=isil, mode=mode)
    for data, s, e in tk.tokenize(Src(), generator=True):
        ev.append({"e": "T", "s": s, "t": e, "fr": [d[0] for d in data]})
    ev.append({"e": "END"})
    traces.append({"p": {"min": mn, "max": mx, "sil": sl, "imin": im, "isil": isil, "strict": strict, "drop": drop}, "ev": ev})
json.dump(traces, open('traces.json', 'w'))
print(sum(len(t["ev"]) for t in traces), "events")
