CONSTANTS MaxFrames = 8 MaxLenBound = 4 SilBound = 2 InitMinBound = 3 InitSilBound = 2 FixD1 = TRUE FixD2 = TRUE
SPECIFICATION Spec
CONSTRAINT Export
CHECK_DEADLOCK FALSE
