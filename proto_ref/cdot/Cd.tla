---- MODULE Cd ----
EXTENDS Naturals
VARIABLES x, y
A == x' = x + 1 /\ y' = y
B == y' = y + x /\ x' = x
Init == x = 0 /\ y = 0
Next == x < 3 /\ (A \cdot B)
Spec == Init /\ [][Next]_<<x,y>>
Inv == y <= 6
====
