SPECIFICATION Spec
INVARIANT Inv
CHECK_DEADLOCK FALSE
