---------------------------- MODULE Reader ----------------------------
(* AudioReader wrapper stack: source -> [recorder] -> [limiter] -> fixed/overlap framing.
   Audio is a sequence of sample ids 1..N. One configuration per initial state. *)
EXTENDS Naturals, Integers, Sequences, FiniteSets, TLC
CONSTANTS MaxN, MaxB, MaxOps

Cfgs == { [n |-> n, b |-> b, h |-> h, lim |-> lm, rec |-> r] :
            n \in 0..MaxN, b \in 1..MaxB, h \in 1..MaxB, lm \in -1..(MaxN + 1), r \in BOOLEAN }
OK(c) == c.h <= c.b

VARIABLES c,        \* configuration
          spos,     \* samples consumed from the underlying source
          cache,    \* recorder: ids recorded so far (before first rewind)
          frozen,   \* recorder switched to in-memory replay
          data,     \* recorder: frozen data
          rpos,     \* position in data while replaying
          lcount,   \* limiter: samples handed out since last rewind
          ph,       \* overlap generator phase: "init" | "run" | "dead"
          ocache,   \* overlap cache (tail of previous block)
          hist,     \* returned values since the last rewind: sequence of blocks, <<>> stands for None
          nops
vars == <<c, spos, cache, frozen, data, rpos, lcount, ph, ocache, hist, nops>>

Ids(a, b) == [i \in 1..(b - a) |-> a + i]          \* ids a+1 .. b
Min2(a, b) == IF a < b THEN a ELSE b
Drop(s, k) == IF k >= Len(s) THEN <<>> ELSE SubSeq(s, k + 1, Len(s))

Init == /\ c \in {x \in Cfgs : OK(x)}
        /\ spos = 0 /\ cache = <<>> /\ frozen = FALSE /\ data = <<>> /\ rpos = 0
        /\ lcount = 0 /\ ph = "init" /\ ocache = <<>> /\ hist = <<>> /\ nops = 0

\* ---- layer 1: (recorded) source read of k >= 1 samples; returns [blk, spos, cache, rpos]
SrcRead(k) ==
  IF frozen
  THEN LET e == Min2(rpos + k, Len(data)) IN
       [blk |-> SubSeq(data, rpos + 1, e), spos |-> spos, cache |-> cache, rpos |-> e]
  ELSE LET e == Min2(spos + k, c.n) IN
       [blk |-> Ids(spos, e), spos |-> e,
        cache |-> IF c.rec THEN cache \o Ids(spos, e) ELSE cache, rpos |-> rpos]
NoRead == [blk |-> <<>>, spos |-> spos, cache |-> cache, rpos |-> rpos]
\* ---- layer 2: limiter
LimRead(k) ==
  IF c.lim < 0 THEN SrcRead(k)
  ELSE LET k2 == Min2(c.lim - lcount, k) IN IF k2 <= 0 THEN NoRead ELSE SrcRead(k2)

Apply(r, blk, newph, newoc) ==
  /\ spos' = r.spos /\ cache' = r.cache /\ rpos' = r.rpos
  /\ lcount' = lcount + Len(r.blk)
  /\ hist' = Append(hist, blk) /\ ph' = newph /\ ocache' = newoc
  /\ nops' = nops + 1 /\ UNCHANGED <<c, frozen, data>>

\* ---- layer 3: framing
ReadFixed == /\ c.h = c.b /\ nops < MaxOps
             /\ LET r == LimRead(c.b) IN Apply(r, r.blk, ph, ocache)
ReadOvInit == /\ c.h < c.b /\ ph = "init" /\ nops < MaxOps
              /\ LET r == LimRead(c.b) IN
                 IF r.blk = <<>> THEN Apply(r, <<>>, "dead", <<>>)          \* repaired D3: None forever
                 ELSE Apply(r, r.blk, "run", Drop(r.blk, c.h))
ReadOvRun  == /\ c.h < c.b /\ ph = "run" /\ nops < MaxOps
              /\ LET r == LimRead(c.h) IN
                 IF r.blk = <<>> THEN Apply(r, <<>>, "run", ocache)
                 ELSE LET blk == ocache \o r.blk IN Apply(r, blk, "run", Drop(blk, c.h))
ReadOvDead == /\ c.h < c.b /\ ph = "dead" /\ nops < MaxOps
              /\ Apply(NoRead, <<>>, "dead", <<>>)
Rewind == /\ c.rec /\ nops < MaxOps
          /\ IF frozen THEN UNCHANGED <<data, frozen, cache>>
                       ELSE data' = cache /\ frozen' = TRUE /\ cache' = <<>>
          /\ rpos' = 0 /\ lcount' = 0 /\ ph' = "init" /\ ocache' = <<>> /\ hist' = <<>>
          /\ nops' = nops + 1 /\ UNCHANGED <<c, spos>>
Next == ReadFixed \/ ReadOvInit \/ ReadOvRun \/ ReadOvDead \/ Rewind
Spec == Init /\ [][Next]_vars

\* ---- declarative side (C10): what the k-th read since the last rewind must return
Visible == LET tot == IF frozen THEN Len(data) ELSE c.n IN
           IF c.lim < 0 THEN tot ELSE Min2(tot, c.lim)
Base(i) == IF frozen THEN data[i] ELSE i                 \* i-th visible sample
Slice(a, b) == [i \in 1..(b - a) |-> Base(a + i)]         \* visible samples a+1..b
Expected(k) ==
  IF c.h = c.b THEN (IF (k - 1) * c.b >= Visible THEN <<>> ELSE Slice((k - 1) * c.b, Min2(k * c.b, Visible)))
  ELSE IF k = 1 THEN Slice(0, Min2(c.b, Visible))
  ELSE IF (k - 2) * c.h + c.b < Visible THEN Slice((k - 1) * c.h, Min2((k - 1) * c.h + c.b, Visible))
  ELSE <<>>
C10 == \A k \in 1..Len(hist) : hist[k] = Expected(k)
\* ---- C19: recorder
C19 == /\ (frozen => /\ data = Ids(0, Len(data))                 \* each consumed sample once, in order
                     /\ Len(data) = spos                          \* exactly what was consumed from the source
                     /\ (c.lim >= 0 => Len(data) <= c.lim))
       /\ (~frozen /\ c.rec => cache = Ids(0, spos))
TypeOK == spos \in 0..c.n /\ lcount >= 0 /\ (c.lim >= 0 => lcount <= c.lim)
=======================================================================
