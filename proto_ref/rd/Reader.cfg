CONSTANTS MaxN = 6 MaxB = 3 MaxOps = 9
SPECIFICATION Spec
INVARIANT C10
INVARIANT C19
INVARIANT TypeOK
CHECK_DEADLOCK FALSE
