#!/bin/sh
# usage: runbase.sh <repo dir>
cd "$1" && /venv/bin/python -m pytest -ra -q -p no:cacheprovider --timeout=900 --continue-on-collection-errors --junitxml=/tmp/proto/junit.xml >/dev/null 2>&1
/venv/bin/python - <<'PY'
import json, xml.etree.ElementTree as ET
base=set(json.load(open('/root/.vp/BASELINE.json'))['stable_pass'])
t=ET.parse('/tmp/proto/junit.xml')
passed=set()
for tc in t.iter('testcase'):
    ok = not any(c.tag in ('failure','error','skipped') for c in tc)
    name=tc.get('classname')+'::'+tc.get('name')
    if ok: passed.add(name)
print("baseline", len(base), "passed", len(passed), "missing", sorted(base-passed)[:10])
PY
