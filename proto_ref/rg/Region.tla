---------------------------- MODULE Region ----------------------------
EXTENDS Naturals, Integers, Sequences, FiniteSets, TLC
CONSTANTS MaxLen, MaxBound, BPS     \* BPS: set of bytes-per-sample values
None == 0 - 9999
Bounds == (-MaxBound..MaxBound) \cup {None}
Min2(a, b) == IF a < b THEN a ELSE b
Max2(a, b) == IF a > b THEN a ELSE b
\* Python slice semantics on a sequence of length n: returns <<lo, hi>> 0-based half-open, lo <= hi
Norm(x, n, dflt) == IF x = None THEN dflt ELSE IF x < 0 THEN Max2(x + n, 0) ELSE Min2(x, n)
PySlice(n, a, b) == LET lo == Norm(a, n, 0)  hi == Norm(b, n, n) IN <<lo, Max2(lo, hi)>>
\* implementation-shaped: AudioRegion.__getitem__ works on bytes; data has n*bps bytes
ByteSlice(nbytes, a, b) == PySlice(nbytes, a, b)     \* bytes.__getitem__(slice) is Python slicing on bytes
Impl(n, bps, a, b) ==
  LET start0 == IF a = None THEN 0 ELSE a                         \* _check_convert_index: start defaults to 0
      start1 == IF start0 < 0 THEN Max2(start0 + n, 0) ELSE start0
      onset  == start1 * bps
      offset == IF b = None THEN None ELSE b * bps                \* NB: the *unnormalised* stop is used
  IN ByteSlice(n * bps, onset, offset)
\* property: result is whole samples and equals the sample-level Python slice
Agree(n, bps, a, b) ==
  LET r == Impl(n, bps, a, b)  s == PySlice(n, a, b) IN
  /\ r[1] % bps = 0 /\ r[2] % bps = 0
  /\ (r[2] - r[1]) = (s[2] - s[1]) * bps
  /\ (s[2] > s[1] => r[1] = s[1] * bps)
ASSUME \A n \in 0..MaxLen, bps \in BPS, a \in Bounds, b \in Bounds : Agree(n, bps, a, b)
\* division: n samples by k -> piece lengths
DivLens(n, k) == LET q == n \div k  r == n % k  m == Min2(k, n) IN
                 [i \in 1..m |-> IF i <= r THEN q + 1 ELSE q]
RECURSIVE SumSeq(_)
SumSeq(s) == IF s = <<>> THEN 0 ELSE Head(s) + SumSeq(Tail(s))
ASSUME \A n \in 1..MaxLen, k \in 1..(MaxLen + 3) :
          LET d == DivLens(n, k) IN
          /\ Len(d) = Min2(k, n) /\ SumSeq(d) = n
          /\ \A i, j \in 1..Len(d) : d[i] - d[j] \in {-1, 0, 1}
          /\ \A i \in 1..Len(d) : d[i] >= 1
VARIABLE x
Init == x = 0
Next == UNCHANGED x
=======================================================================
