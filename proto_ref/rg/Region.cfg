CONSTANTS MaxLen = 6 MaxBound = 9 BPS = {1, 2, 4, 6, 12}
INIT Init
NEXT Next
