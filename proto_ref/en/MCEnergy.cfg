CONSTANTS Palette <- PaletteDef MaxN = 2 MaxC = 2 Ks <- KsDef
INIT Init
NEXT Next
INVARIANT Mono
INVARIANT AnyIsMax
INVARIANT NegIdx
INVARIANT OutOfRange
CONSTRAINT Export
CHECK_DEADLOCK FALSE
