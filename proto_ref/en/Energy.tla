---------------------------- MODULE Energy ----------------------------
EXTENDS Naturals, Integers, Sequences, FiniteSets, TLC, Json
CONSTANTS Palette, MaxN, MaxC, Ks       \* sample values, samples per window, channels, thresholds T = 10*k dB
\* ---- decode: signed little-endian
Pow2(n) == IF n = 0 THEN 1 ELSE IF n = 8 THEN 256 ELSE IF n = 16 THEN 65536 ELSE 16777216
SByte(b) == IF b >= 128 THEN b - 256 ELSE b
Decode(bs, sw) == IF sw = 1 THEN SByte(bs[1])
                  ELSE IF sw = 2 THEN bs[1] + 256 * SByte(bs[2])
                  ELSE bs[1] + 256 * bs[2] + 65536 * bs[3] + 16777216 * SByte(bs[4])
\* encode (for exporting test vectors): two's complement little-endian bytes
UBytes(q, sw) == IF sw = 1 THEN <<q>> ELSE IF sw = 2 THEN <<q % 256, q \div 256>>
                 ELSE <<q % 256, (q \div 256) % 256, (q \div 65536) % 256, q \div 16777216>>
Enc(x, sw) == IF x >= 0 THEN UBytes(x, sw)
              ELSE LET b == UBytes(-x - 1, sw) IN [i \in 1..sw |-> 255 - b[i]]    \* two's complement = NOT(-x-1)
Fits(x, sw) == IF sw = 1 THEN x >= -128 /\ x <= 127 ELSE IF sw = 2 THEN x >= -32768 /\ x <= 32767 ELSE TRUE
ASSUME \A sw \in {1, 2, 4} : \A x \in Palette \cup {-128, 127, -32768, 32767} : Fits(x, sw) => Decode(Enc(x, sw), sw) = x
ASSUME Decode(<<0, 128>>, 2) = -32768 /\ Decode(<<0, 0, 0, 128>>, 4) = -2147483647 - 1 /\ Decode(<<255, 255, 255, 127>>, 4) = 2147483647
ASSUME Decode(<<16, 0>>, 2) = 16 /\ Decode(<<0, 16>>, 2) = 4096     \* byte order matters

\* ---- a window: win[c][i], c in 1..C channels, i in 1..n samples
RECURSIVE Sum(_, _)
Sum(f, n) == IF n = 0 THEN 0 ELSE f[n] + Sum(f, n - 1)
SumSq(ch) == Sum([i \in 1..Len(ch) |-> ch[i] * ch[i]], Len(ch))
RECURSIVE Pow10(_)
Pow10(k) == IF k = 0 THEN 1 ELSE 10 * Pow10(k - 1)
\* energy(ch) >= 10k dB  <=>  sumsq/n >= 10^k ; zero energy is floored at -200 dB
GE(sumsq, n, k) == IF sumsq = 0 THEN k <= -20
                   ELSE IF k >= 0 THEN sumsq >= n * Pow10(k)
                   ELSE IF k <= -9 THEN TRUE               \* n < 10^9: any non-zero integer window is above -90 dB
                   ELSE sumsq * Pow10(-k) >= n
ChanActive(ch, k) == GE(SumSq(ch), Len(ch), k)
MixSums(win) == [i \in 1..Len(win[1]) |-> Sum([c \in 1..Len(win) |-> win[c][i]], Len(win))]
\* mean channel m[i] = s[i]/C : sum (s/C)^2 / n >= 10^k  <=>  sum s^2 >= n*C^2*10^k
MixActive(win, k) == LET C == Len(win) IN GE(SumSq(MixSums(win)), Len(win[1]) * C * C, k)
B2S(b) == IF b THEN "T" ELSE "F"
\* selector given by name (None is "none")
VerdictName(win, name, k) ==
  IF Len(win) = 1 THEN B2S(ChanActive(win[1], k))                    \* selection ignored for mono
  ELSE IF name \in {"none", "any"} THEN B2S(\E c \in 1..Len(win) : ChanActive(win[c], k))
  ELSE IF name \in {"mix", "avg", "average"} THEN B2S(MixActive(win, k))
  ELSE "ValueError"
\* selector given as an integer index
VerdictIdx(win, idx, k) ==
  LET C == Len(win) IN
  IF C = 1 THEN B2S(ChanActive(win[1], k))
  ELSE IF idx >= C \/ idx < -C THEN "ValueError"
  ELSE B2S(ChanActive(win[(IF idx < 0 THEN idx + C ELSE idx) + 1], k))
=======================================================================
