---------------------------- MODULE MCEnergy ----------------------------
EXTENDS Energy
PaletteDef == {-1000, -101, -100, -11, -10, -3, -1, 0, 1, 3, 10, 11, 100, 101, 1000}
KsDef == {-21, -20, -2, 0, 1, 2, 3, 4, 5, 6}
Wins == UNION { [1..C -> [1..n -> Palette]] : C \in 1..MaxC, n \in 1..MaxN }
VARIABLES win, done
Init == win \in Wins /\ done = FALSE
Next == done = FALSE /\ done' = TRUE /\ win' = win
KsSeq == CHOOSE s \in [1..Cardinality(Ks) -> Ks] : \A i, j \in 1..Cardinality(Ks) : i < j => s[i] < s[j]
\* monotone in the threshold; any = max over channels; per-channel index semantics
Mono == \A k1, k2 \in Ks : k1 <= k2 =>
          /\ \A nm \in {"any", "mix"} : VerdictName(win, nm, k2) = "T" => VerdictName(win, nm, k1) = "T"
          /\ \A ix \in {0, -1} : VerdictIdx(win, ix, k2) = "T" => VerdictIdx(win, ix, k1) = "T"
AnyIsMax == \A k \in Ks : VerdictName(win, "any", k) = "T" <=> \E c \in 0..(Len(win) - 1) : VerdictIdx(win, c, k) = "T"
NegIdx == Len(win) > 1 => \A k \in Ks : \A c \in 1..Len(win) : VerdictIdx(win, -c, k) = VerdictIdx(win, Len(win) - c, k)
OutOfRange == Len(win) > 1 => \A k \in Ks : VerdictIdx(win, Len(win), k) = "ValueError" /\ VerdictIdx(win, -Len(win) - 1, k) = "ValueError" /\ VerdictName(win, "bogus", k) = "ValueError"
Export == done => PrintT(ToJson([w |-> win, any |-> [k \in Ks |-> VerdictName(win, "any", k)], mix |-> [k \in Ks |-> VerdictName(win, "mix", k)]]))
=========================================================================
