CONSTANTS Max1 = 5 Max2 = 6 MaxLenBound = 3 SilBound = 2 InitMinBound = 2 InitSilBound = 1
SPECIFICATION Spec
INVARIANT C20
INVARIANT C20Strong
CHECK_DEADLOCK FALSE
