---------------------------- MODULE TokPrefix ----------------------------
(* C08 prefix consistency: what an end-of-stream flush would deliver now is never lost and never shrinks *)
EXTENDS Tokenizer2
VARIABLES fc, nout      \* flush candidate and number of delivered tokens, snapshotted when the previous frame was requested
pvars == <<vars, fc, nout>>
FCnow == Flush(p, r, cur + 1).tok
PInit == Init /\ fc = NoTok /\ nout = 0
PNext == \/ ReadFrame /\ fc' = FCnow /\ nout' = Len(out)
         \/ (SilSkip \/ SilStart \/ PNValid \/ PNInvalid \/ NValid \/ NInvalid \/ PSValid \/ PSInvalid \/ Emit \/ ReadEOS) /\ UNCHANGED <<fc, nout>>
PSpec == PInit /\ [][PNext]_pvars
TL(t) == Len(t.frames)
\* evaluated whenever the tokenizer is back at a suspension point ("read") after processing one more frame
FlushCandidateKept ==
  (pc = "read" /\ fc # NoTok) =>
     \/ /\ Len(out) = nout + 1                                   \* the frame closed a token: it is the candidate, possibly longer
        /\ out[Len(out)].start = fc.start /\ TL(out[Len(out)]) >= TL(fc)
     \/ /\ Len(out) = nout                                        \* still open: the candidate only grew
        /\ FCnow # NoTok /\ FCnow.start = fc.start /\ TL(FCnow) >= TL(fc)
AppendOnly == [][Len(out') >= Len(out) /\ \A i \in 1..Len(out) : out'[i] = out[i]]_pvars
=========================================================================
