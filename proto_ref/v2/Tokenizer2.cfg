CONSTANTS MaxFrames = 8 MaxLenBound = 4 SilBound = 2 InitMinBound = 3 InitSilBound = 2
SPECIFICATION Spec
INVARIANT C01
INVARIANT C02
CHECK_DEADLOCK FALSE
