---------------------------- MODULE Tokenizer2 ----------------------------
EXTENDS TokCore, FiniteSets, TLC
CONSTANTS MaxFrames, MaxLenBound, SilBound, InitMinBound, InitSilBound
Params == { [min |-> mn, max |-> mx, sil |-> sl, imin |-> im, isil |-> is, strict |-> sm, drop |-> dm] :
              mn \in 1..MaxLenBound, mx \in 1..MaxLenBound, sl \in 0..SilBound,
              im \in 0..InitMinBound, is \in 0..InitSilBound, sm \in BOOLEAN, dm \in BOOLEAN }
VARIABLES p, stream, pc, r, cur, pending, out
vars == <<p, stream, pc, r, cur, pending, out>>
Init == /\ p \in {q \in Params : Accepted(q)} /\ stream = <<>> /\ pc = "read" /\ r = Regs0
        /\ cur = -1 /\ pending = NoTok /\ out = <<>>
ReadFrame == pc = "read" /\ Len(stream) < MaxFrames /\ cur' = cur + 1 /\ pc' = "proc"
             /\ UNCHANGED <<p, stream, r, pending, out>>
\* one action per branch of _process, all with the common body Step
Do(name, v) == /\ pc = "proc" /\ Branch(p, r, v) = name
               /\ LET s == Step(p, r, cur, v) IN
                  /\ r' = s.r /\ pending' = s.tok /\ pc' = (IF s.tok = NoTok THEN "read" ELSE "emit")
               /\ stream' = Append(stream, v) /\ UNCHANGED <<p, cur, out>>
SilSkip == Do("SilSkip", FALSE)        SilStart == Do("SilStart", TRUE)
PNValid == Do("PNValid", TRUE)         PNInvalid == Do("PNInvalid", FALSE)
NValid == Do("NValid", TRUE)           NInvalid == Do("NInvalid", FALSE)
PSValid == Do("PSValid", TRUE)         PSInvalid == Do("PSInvalid", FALSE)
Emit == /\ pc = "emit" /\ out' = Append(out, [frames |-> pending.frames, start |-> pending.start, end |-> pending.end, at |-> cur])
        /\ pending' = NoTok /\ pc' = (IF cur >= Len(stream) THEN "done" ELSE "read")
        /\ UNCHANGED <<p, stream, r, cur>>
ReadEOS == /\ pc = "read" /\ cur' = cur + 1
           /\ LET s == Flush(p, r, cur + 1) IN
              /\ r' = s.r /\ pending' = s.tok /\ pc' = (IF s.tok = NoTok THEN "done" ELSE "emit")
           /\ UNCHANGED <<p, stream, out>>
Next == ReadFrame \/ SilSkip \/ SilStart \/ PNValid \/ PNInvalid \/ NValid \/ NInvalid \/ PSValid \/ PSInvalid \/ Emit \/ ReadEOS
Spec == Init /\ [][Next]_vars
N == Len(stream)
TLen(t) == Len(t.frames)
Valid(k) == stream[k + 1]
IsCont(i) == i > 1 /\ TLen(out[i-1]) = p.max /\ out[i-1].end + 1 = out[i].start
C01 == \A i \in 1..Len(out) : LET t == out[i] IN
          /\ TLen(t) >= 1 /\ t.end - t.start + 1 = TLen(t) /\ 0 <= t.start /\ t.end <= cur
          /\ \A k \in 1..TLen(t) : t.frames[k] = t.start + k - 1
          /\ (i > 1 => out[i-1].end < t.start)
C02 == \A i \in 1..Len(out) : TLen(out[i]) <= p.max /\ (TLen(out[i]) < p.min => (~p.strict /\ IsCont(i)))
=========================================================================
