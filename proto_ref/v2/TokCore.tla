---------------------------- MODULE TokCore ----------------------------
(* Pure (state-free) transcription of StreamTokenizer._process / _post_process /
   _process_end_of_detection as record-valued operators.  r = registers, cur = index of the
   frame being processed, v = its validity, q = parameters. *)
EXTENDS Naturals, Integers, Sequences
NoTok == [frames |-> <<>>, start |-> -1, end |-> -1]
MkTok(b, sf) == [frames |-> b, start |-> sf, end |-> sf + Len(b) - 1]
Regs0 == [st |-> "SILENCE", buf |-> <<>>, sil |-> 0, icount |-> 0, startf |-> 0, contig |-> FALSE]
Prefix(b, n) == IF n <= 0 THEN <<>> ELSE SubSeq(b, 1, n)
Accepted(q) == q.max > 0 /\ q.min > 0 /\ q.min <= q.max /\ q.sil < q.max /\ q.imin < q.max

\* result of a step: new registers + token (NoTok if none)
Res(st, buf, sil, ic, sf, cg, tok) ==
  [r |-> [st |-> st, buf |-> buf, sil |-> sil, icount |-> ic, startf |-> sf, contig |-> cg], tok |-> tok]
Keep(r, st, buf, sil, ic, sf) == Res(st, buf, sil, ic, sf, r.contig, NoTok)
\* _process_end_of_detection(truncated) evaluated with buffer b, silence s, start sf
EOD(q, r, cur, st, b, truncated, s, ic, sf) ==
  LET b1 == IF ~truncated /\ q.drop /\ s > 0 THEN Prefix(b, Len(b) - s) ELSE b IN
  IF Len(b1) >= q.min \/ (Len(b1) > 0 /\ ~q.strict /\ r.contig)
  THEN Res(st, <<>>, s, ic, IF truncated THEN cur + 1 ELSE sf, truncated, MkTok(b1, sf))
  ELSE Res(st, <<>>, s, ic, sf, FALSE, NoTok)

Branch(q, r, v) ==
  CASE r.st = "SILENCE" /\ ~v -> "SilSkip"
    [] r.st = "SILENCE" /\ v -> "SilStart"
    [] r.st = "POSSIBLE_NOISE" /\ v -> "PNValid"
    [] r.st = "POSSIBLE_NOISE" /\ ~v -> "PNInvalid"
    [] r.st = "NOISE" /\ v -> "NValid"
    [] r.st = "NOISE" /\ ~v -> "NInvalid"
    [] r.st = "POSSIBLE_SILENCE" /\ v -> "PSValid"
    [] r.st = "POSSIBLE_SILENCE" /\ ~v -> "PSInvalid"

Step(q, r, cur, v) ==
  LET b1 == Append(r.buf, cur) IN
  CASE Branch(q, r, v) = "SilSkip" -> Keep(r, r.st, r.buf, r.sil, r.icount, r.startf)
    [] Branch(q, r, v) = "SilStart" ->
         IF 1 >= q.imin
         THEN IF Len(b1) >= q.max THEN EOD(q, r, cur, "NOISE", b1, TRUE, 0, 1, cur)
                                  ELSE Keep(r, "NOISE", b1, 0, 1, cur)
         ELSE Keep(r, "POSSIBLE_NOISE", b1, 0, 1, cur)
    [] Branch(q, r, v) = "PNValid" ->
         IF r.icount + 1 >= q.imin
         THEN IF Len(b1) >= q.max THEN EOD(q, r, cur, "NOISE", b1, TRUE, 0, r.icount + 1, r.startf)
                                  ELSE Keep(r, "NOISE", b1, 0, r.icount + 1, r.startf)
         ELSE IF Len(b1) >= q.max THEN Keep(r, "SILENCE", <<>>, 0, r.icount + 1, r.startf)   \* D2 repair
                                  ELSE Keep(r, r.st, b1, 0, r.icount + 1, r.startf)
    [] Branch(q, r, v) = "PNInvalid" ->
         IF r.sil + 1 > q.isil \/ Len(r.buf) + 1 >= q.max
         THEN Keep(r, "SILENCE", <<>>, r.sil + 1, r.icount, r.startf)
         ELSE Keep(r, r.st, b1, r.sil + 1, r.icount, r.startf)
    [] Branch(q, r, v) = "NValid" ->
         IF Len(b1) >= q.max THEN EOD(q, r, cur, r.st, b1, TRUE, r.sil, r.icount, r.startf)
                             ELSE Keep(r, r.st, b1, r.sil, r.icount, r.startf)
    [] Branch(q, r, v) = "NInvalid" ->
         IF q.sil <= 0 THEN EOD(q, r, cur, "SILENCE", r.buf, FALSE, r.sil, r.icount, r.startf)
         ELSE IF Len(b1) = q.max THEN EOD(q, r, cur, "POSSIBLE_SILENCE", b1, TRUE, 1, r.icount, r.startf)
                                 ELSE Keep(r, "POSSIBLE_SILENCE", b1, 1, r.icount, r.startf)
    [] Branch(q, r, v) = "PSValid" ->
         IF Len(b1) >= q.max THEN EOD(q, r, cur, "NOISE", b1, TRUE, 0, r.icount, r.startf)
                             ELSE Keep(r, "NOISE", b1, 0, r.icount, r.startf)
    [] Branch(q, r, v) = "PSInvalid" ->
         IF r.sil >= q.sil
         THEN IF r.sil < Len(r.buf) THEN EOD(q, r, cur, "SILENCE", r.buf, FALSE, r.sil, r.icount, r.startf)
                                    ELSE Res("SILENCE", <<>>, 0, r.icount, r.startf, FALSE, NoTok)   \* D1 repair
         ELSE IF Len(b1) >= q.max THEN EOD(q, r, cur, r.st, b1, TRUE, r.sil + 1, r.icount, r.startf)
                                  ELSE Keep(r, r.st, b1, r.sil + 1, r.icount, r.startf)

\* _post_process (source returned None)
Flush(q, r, cur) ==
  IF r.st \in {"NOISE", "POSSIBLE_SILENCE"} /\ Len(r.buf) > 0 /\ Len(r.buf) > r.sil
  THEN EOD(q, r, cur, r.st, r.buf, FALSE, r.sil, r.icount, r.startf)
  ELSE [r |-> r, tok |-> NoTok]
\* _reinitialize: what a new run resets, and what it leaves behind
Reinit(r) == [r EXCEPT !.contig = FALSE, !.buf = <<>>, !.st = "SILENCE"]
=========================================================================
