CONSTANTS NObs = 2 UseSaver = TRUE CacheBlocks = 2 AllowStop = TRUE MaxFrames = 100000 P0 <- P0def
SPECIFICATION TSpec
INVARIANT C12Safe
INVARIANT C13Safe
INVARIANT C14Safe
INVARIANT FinalOK
CONSTRAINT Progress
POSTCONDITION Post
CHECK_DEADLOCK FALSE
