CONSTANTS NObs = 2 UseSaver = TRUE CacheBlocks = 2 AllowStop = TRUE MaxFrames = 5 P0 <- P0def
SPECIFICATION Spec
INVARIANT C12Safe
INVARIANT C13Safe
INVARIANT C14Safe
PROPERTY Termination
