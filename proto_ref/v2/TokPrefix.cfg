CONSTANTS MaxFrames = 8 MaxLenBound = 4 SilBound = 2 InitMinBound = 3 InitSilBound = 2
SPECIFICATION PSpec
INVARIANT FlushCandidateKept
PROPERTY AppendOnly
CHECK_DEADLOCK FALSE
