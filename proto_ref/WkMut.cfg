CONSTANTS MaxFrames = 4 MaxLenBound = 3 SilBound = 2 InitMinBound = 2 InitSilBound = 1 FixD1 = TRUE FixD2 = TRUE
 NObs = 2 UseSaver = TRUE CacheBlocks = 2 AllowStop = TRUE
 P0 <- P0def
SPECIFICATION WSpec
INVARIANT C12Safe
INVARIANT C13Safe
INVARIANT C14Safe
INVARIANT C01
INVARIANT C02
PROPERTY Termination
