---------------------------- MODULE TokExport ----------------------------
EXTENDS Tok, Json
Export == (pc = "done") => PrintT(ToJson([p |-> p, s |-> stream, o |-> OutSE, at |-> [i \in 1..Len(out) |-> out[i].at]]))
=========================================================================
