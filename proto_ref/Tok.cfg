CONSTANTS MaxFrames = 9 MaxLenBound = 3 SilBound = 2 InitMinBound = 2 InitSilBound = 1 FixD1 = TRUE FixD2 = FALSE
SPECIFICATION Spec
INVARIANT C01
INVARIANT C02
INVARIANT C03
INVARIANT C08
CHECK_DEADLOCK FALSE
