---------------------------- MODULE TokObs ----------------------------
(* free observation machine: variables are updated from logged events only; no automaton *)
EXTENDS Naturals, Integers, Sequences, FiniteSets, TLC, Json, IOUtils, TLCExt
Traces == JsonDeserialize(IOEnv.TRACE_FILE)
VARIABLES p, stream, out, pc, nread, eos, tid, l
vars == <<p, stream, out, pc, nread, eos, tid, l>>
Ev == Traces[tid].ev
Init == /\ tid \in 1..Len(Traces) /\ l = 1 /\ p = Traces[tid].p
        /\ stream = <<>> /\ out = <<>> /\ pc = "run" /\ nread = 0 /\ eos = 0
Is(e) == l <= Len(Ev) /\ Ev[l].e = e /\ l' = l + 1 /\ UNCHANGED <<tid, p>>
OR == Is("R") /\ nread' = nread + 1 /\ UNCHANGED <<stream, out, pc, eos>>
OV == Is("V") /\ stream' = Append(stream, Ev[l].v) /\ UNCHANGED <<out, pc, nread, eos>>
OT == Is("T") /\ out' = Append(out, [frames |-> Ev[l].fr, start |-> Ev[l].s, end |-> Ev[l].t, at |-> nread - 1 + eos, fl |-> eos])
      /\ UNCHANGED <<stream, pc, nread, eos>>
OEOS == Is("EOS") /\ eos' = eos + 1 /\ UNCHANGED <<stream, out, pc, nread>>
OEND == Is("END") /\ pc' = "done" /\ UNCHANGED <<stream, out, nread, eos>>
Next == OR \/ OV \/ OT \/ OEOS \/ OEND
Spec == Init /\ [][Next]_vars
N == Len(stream)
TLen(t) == Len(t.frames)
Valid(k) == stream[k + 1]
IsCont(i) == i > 1 /\ TLen(out[i-1]) = p.max /\ out[i-1].end + 1 = out[i].start
C01 == \A i \in 1..Len(out) : LET t == out[i] IN
          /\ TLen(t) >= 1 /\ t.end - t.start + 1 = TLen(t) /\ 0 <= t.start /\ t.end < nread
          /\ \A k \in 1..TLen(t) : t.frames[k] = t.start + k - 1
          /\ (i > 1 => out[i-1].end < t.start)
C02 == \A i \in 1..Len(out) : TLen(out[i]) <= p.max /\ (TLen(out[i]) < p.min => (~p.strict /\ IsCont(i)))
MaxRun == IF p.imin > 1 THEN (IF p.sil > p.isil THEN p.sil ELSE p.isil) ELSE p.sil
C03 == (pc = "done" /\ C01) => \A i \in 1..Len(out) : LET t == out[i] IN
          /\ \E k \in t.start..t.end : Valid(k)
          /\ (~IsCont(i) => Valid(t.start))
          /\ (p.drop /\ TLen(t) < p.max => Valid(t.end))
          /\ \A a \in t.start..t.end : LET lo == a - MaxRun IN
               ~( lo >= 0 /\ (\A k \in lo..a : ~Valid(k))
                  /\ \A k \in lo..a : \E j \in 1..i : out[j].start <= k /\ k <= out[j].end /\ \A m \in (j+1)..i : IsCont(m) )
Min2(a, b) == IF a < b THEN a ELSE b
SetMax(S) == CHOOSE x \in S : \A y \in S : y <= x
SetMin(S) == CHOOSE x \in S : \A y \in S : x <= y
RECURSIVE StretchEnd(_)
StretchEnd(e) == LET nxt == {k \in (e+1)..Min2(e + p.sil + 1, N - 1) : Valid(k)} IN IF nxt = {} THEN e ELSE StretchEnd(SetMax(nxt))
PieceTok(s, x, j) == LET a == s + j * p.max  b == Min2(a + p.max - 1, x)  vs == {k \in a..b : Valid(k)} IN
   IF b - a + 1 = p.max THEN <<[start |-> a, end |-> b]>> ELSE IF vs = {} THEN <<>>
   ELSE LET b2 == IF p.drop THEN SetMax(vs) ELSE b IN
        IF (b2 - a + 1 >= p.min) \/ (~p.strict /\ j > 0) THEN <<[start |-> a, end |-> b2]>> ELSE <<>>
RECURSIVE Pieces(_, _, _)
Pieces(s, x, j) == IF s + j * p.max > x THEN <<>> ELSE PieceTok(s, x, j) \o Pieces(s, x, j + 1)
RECURSIVE Seg(_)
Seg(i) == LET vs == {k \in i..(N-1) : Valid(k)} IN IF vs = {} THEN <<>>
          ELSE LET s == SetMin(vs) e == StretchEnd(s) x == Min2(e + p.sil, N - 1) IN Pieces(s, x, 0) \o Seg(x + 1)
OutSE == [i \in 1..Len(out) |-> [start |-> out[i].start, end |-> out[i].end]]
C04 == (pc = "done" /\ p.imin <= 1) => OutSE = Seg(0)
C08 == \A i \in 1..Len(out) : LET t == out[i] IN
          IF t.fl = 0 THEN \/ (TLen(t) = p.max /\ t.at = t.end)
                           \/ (t.end < t.at /\ t.at <= t.end + p.sil + 1)
          ELSE t.fl = 1 /\ t.at = nread /\ (\A j \in (i+1)..Len(out) : FALSE)
\* report each monitor per trace instead of stopping at the first failure
Mon == /\ (~C01 => TLCSet(100000 + tid, 1)) /\ (~C02 => TLCSet(200000 + tid, 1))
       /\ (~C03 => TLCSet(300000 + tid, 1)) /\ (~C04 => TLCSet(400000 + tid, 1)) /\ (~C08 => TLCSet(500000 + tid, 1))
       /\ TLCSet(tid, l)
ASSUME \A t \in 1..Len(Traces) : \A b \in {0, 100000, 200000, 300000, 400000, 500000} : TLCSet(b + t, 0)
Post == \A t \in 1..Len(Traces) :
   PrintT(<<"TRACE", t, TLCGet(t), Len(Traces[t].ev) + 1, TLCGet(100000+t), TLCGet(200000+t), TLCGet(300000+t), TLCGet(400000+t), TLCGet(500000+t)>>)
=======================================================================
