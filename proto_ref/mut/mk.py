import sys, shutil, os, subprocess, json
MUTS = {
 # id: (file, old, new)
 "M_C08_listgen": ("auditok/core.py", "        if generator:\n            return token_gen\n", "        if generator:\n            return iter(list(token_gen))\n"),
 "M_C20_noreset": ("auditok/core.py", "    def _reinitialize(self):\n        self._contiguous_token = False\n", "    def _reinitialize(self):\n"),
 "M_C10_limint": ("auditok/util.py", "self._max_samples = round(max_read * self.sr)", "self._max_samples = int(max_read * self.sr)"),
 "M_C19_limrewind": ("auditok/util.py", "        super().rewind()\n        self._read_samples = 0\n", "        super().rewind()\n"),
 "M_C13_nodrain": ("auditok/workers.py", "                if data != _STOP_PROCESSING:\n                    self._cache.append(data)\n                    self._total_cached += len(data)\n", "                pass\n"),
 "M_C14_stopnoflush": ("auditok/workers.py", "        if self._stop_requested():\n            return None\n", "        if self._stop_requested():\n            self._audio_region_gen.close()\n            return None\n"),
 "M_C15_default_aw": ("auditok/cmdline.py", "            dest=\"analysis_window\",\n            default=0.01,", "            dest=\"analysis_window\",\n            default=0.05,"),
 "M_C15_carry": ("auditok/util.py", "            mins, millis = divmod(millis, 60000)", "            mins, millis = divmod(millis, 60000)\n            mins = mins if hrs == 0 else mins + 0 * hrs"),
 "M_C18_skipint": ("auditok/core.py", "        skip_samples = round(skip * audio_source.sampling_rate)", "        skip_samples = int(skip * audio_source.sampling_rate)"),
 "M_C17_div": ("auditok/core.py", "            if rest > 0:\n                offset = 1\n                rest -= 1\n", "            if rest > 0 and onset > 0:\n                offset = 1\n                rest -= 1\n"),
 "M_C07_gt": ("auditok/util.py", "        return log_energy >= self._energy_threshold", "        return log_energy > self._energy_threshold"),
 "M_C11_emptybytes": ("auditok/io.py", "        data = self._read_from_stream(size)\n        if not data:\n            return None\n        return data", "        data = self._read_from_stream(size)\n        if data is None:\n            return None\n        return data"),
 "M_C03_gt": ("auditok/core.py", "                if self._silence_length >= self.max_continuous_silence:", "                if self._silence_length > self.max_continuous_silence:"),
 "M_C01_start": ("auditok/core.py", "                self._start_frame = self._current_frame + 1\n", "                self._start_frame = self._current_frame\n"),
 "M_C12_stopearly": ("auditok/workers.py", "            self._notify_observers((_id, audio_region))\n        self._notify_observers(_STOP_PROCESSING)", "            self._notify_observers((_id, audio_region))\n            if _id == 7:\n                self._notify_observers(_STOP_PROCESSING)\n        self._notify_observers(_STOP_PROCESSING)"),
 "M_C09_aliasprec": ("auditok/core.py", 'params["max_read"] = params.get("max_read", params.get("mr"))', 'params["max_read"] = params.get("mr", params.get("max_read"))'),
 "M_C16_ms": ("auditok/core.py", "        start_sample = int(start_s * sr)\n", "        start_sample = round(start_s * sr)\n"),
 "M_C05_start": ("auditok/core.py", "    start = start_frame * frame_duration\n", "    start = start_frame * round(frame_duration, 2)\n"),
 "M_C06_noeps": ("auditok/core.py", "    max_length = _duration_to_nb_windows(\n        max_dur, analysis_window, math.floor, _EPSILON\n    )", "    max_length = _duration_to_nb_windows(\n        max_dur, analysis_window, math.floor\n    )"),
 "M_C02_ctor": ("auditok/core.py", "        if max_continuous_silence >= max_length:", "        if max_continuous_silence > max_length:"),
}
if __name__ == "__main__":
    mid = sys.argv[1]; f, old, new = MUTS[mid]
    dst = f"/tmp/mut/{mid}"
    shutil.rmtree(dst, ignore_errors=True); shutil.copytree("/tmp/scratch_repo", dst, ignore=shutil.ignore_patterns(".git", "build", "__pycache__", ".benchmarks"))
    p = os.path.join(dst, f); s = open(p).read()
    assert s.count(old) == 1, (mid, s.count(old))
    open(p, "w").write(s.replace(old, new))
    r = subprocess.run(f"cd {dst} && /venv/bin/python -m pytest -q -p no:cacheprovider --timeout=900 --continue-on-collection-errors --junitxml={dst}/junit.xml >/dev/null 2>&1", shell=True)
    import xml.etree.ElementTree as ET
    base = set(json.load(open('/root/.vp/BASELINE.json'))['stable_pass'])
    passed = set()
    for tc in ET.parse(f"{dst}/junit.xml").iter('testcase'):
        if not any(c.tag in ('failure', 'error', 'skipped') for c in tc): passed.add(tc.get('classname') + '::' + tc.get('name'))
    missing = sorted(base - passed)
    print(mid, "baseline-pass" if not missing else f"FAILS {len(missing)}: {missing[:2]}")
    shutil.rmtree(dst, ignore_errors=True)
