SPECIFICATION Spec
CONSTRAINT Mon
POSTCONDITION Post
CHECK_DEADLOCK FALSE
