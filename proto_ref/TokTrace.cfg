CONSTANTS MaxFrames = 100000 MaxLenBound = 3 SilBound = 2 InitMinBound = 2 InitSilBound = 1 FixD1 = TRUE FixD2 = TRUE
SPECIFICATION TSpec
INVARIANT C01
INVARIANT C02
INVARIANT C03
INVARIANT C08
INVARIANT C04
CONSTRAINT Progress
POSTCONDITION Post
CHECK_DEADLOCK FALSE
