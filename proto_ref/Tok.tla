---------------------------- MODULE Tok ----------------------------
EXTENDS Naturals, Integers, Sequences, FiniteSets, TLC

CONSTANTS MaxFrames, MaxLenBound, SilBound, InitMinBound, InitSilBound, FixD1, FixD2

Params == { [min |-> mn, max |-> mx, sil |-> sl, imin |-> im, isil |-> is, strict |-> sm, drop |-> dm] :
              mn \in 1..MaxLenBound, mx \in 1..MaxLenBound, sl \in 0..SilBound,
              im \in 0..InitMinBound, is \in 0..InitSilBound, sm \in BOOLEAN, dm \in BOOLEAN }
Accepted(q) == /\ q.max > 0 /\ q.min > 0 /\ q.min <= q.max /\ q.sil < q.max /\ q.imin < q.max

VARIABLES p, stream, pc, st, buf, sil, icount, startf, cur, contig, pending, out
vars == <<p, stream, pc, st, buf, sil, icount, startf, cur, contig, pending, out>>

NoTok == [frames |-> <<>>, start |-> -1, end |-> -1, at |-> -1]
Tok(b, sf) == [frames |-> b, start |-> sf, end |-> sf + Len(b) - 1, at |-> cur]

Init == /\ p \in {q \in Params : Accepted(q)}
        /\ stream = <<>> /\ pc = "read" /\ st = "SILENCE" /\ buf = <<>>
        /\ sil = 0 /\ icount = 0 /\ startf = 0 /\ cur = -1 /\ contig = FALSE
        /\ pending = NoTok /\ out = <<>>

Prefix(b, n) == IF n <= 0 THEN <<>> ELSE SubSeq(b, 1, n)

\* _process_end_of_detection
EOD(b, truncated, s, sf, cg) ==
  LET b1 == IF ~truncated /\ p.drop /\ s > 0 THEN Prefix(b, Len(b) - s) ELSE b IN
  IF Len(b1) >= p.min \/ (Len(b1) > 0 /\ ~p.strict /\ cg)
  THEN [tok |-> Tok(b1, sf), startf |-> IF truncated THEN cur + 1 ELSE sf, contig |-> truncated]
  ELSE [tok |-> NoTok, startf |-> sf, contig |-> FALSE]

\* common tail: registers after the frame, r = result of EOD or "no EOD"
Set(newst, newbuf, newsil, newic, newstart, newcontig, tok) ==
  /\ st' = newst /\ buf' = newbuf /\ sil' = newsil /\ icount' = newic
  /\ startf' = newstart /\ contig' = newcontig
  /\ IF tok = NoTok THEN pc' = "read" /\ pending' = NoTok
                    ELSE pc' = "emit" /\ pending' = tok
  /\ UNCHANGED <<p, cur, out>>

Deliver(newst, b, truncated, newsil, newic, sf) ==
  LET r == EOD(b, truncated, newsil, sf, contig) IN
  Set(newst, <<>>, newsil, newic, r.startf, r.contig, r.tok)

B1 == Append(buf, cur)

ReadFrame ==
  /\ pc = "read" /\ Len(stream) < MaxFrames
  /\ cur' = cur + 1 /\ pc' = "proc"
  /\ UNCHANGED <<p, stream, st, buf, sil, icount, startf, contig, pending, out>>

SilSkip(V)   == pc = "proc" /\ stream' = Append(stream, V) /\ st = "SILENCE" /\ ~V /\ Set(st, buf, sil, icount, startf, contig, NoTok)
SilStart(V)  == /\ pc = "proc" /\ stream' = Append(stream, V) /\ st = "SILENCE" /\ V
             /\ IF 1 >= p.imin
                THEN IF Len(B1) >= p.max THEN Deliver("NOISE", B1, TRUE, 0, 1, cur)
                                         ELSE Set("NOISE", B1, 0, 1, cur, contig, NoTok)
                ELSE Set("POSSIBLE_NOISE", B1, 0, 1, cur, contig, NoTok)
PNValid(V)   == /\ pc = "proc" /\ stream' = Append(stream, V) /\ st = "POSSIBLE_NOISE" /\ V
             /\ IF icount + 1 >= p.imin
                THEN IF Len(B1) >= p.max THEN Deliver("NOISE", B1, TRUE, 0, icount + 1, startf)
                                         ELSE Set("NOISE", B1, 0, icount + 1, startf, contig, NoTok)
                ELSE IF FixD2 /\ Len(B1) >= p.max
                     THEN Set("SILENCE", <<>>, 0, icount + 1, startf, contig, NoTok)
                     ELSE Set(st, B1, 0, icount + 1, startf, contig, NoTok)
PNInvalid(V) == /\ pc = "proc" /\ stream' = Append(stream, V) /\ st = "POSSIBLE_NOISE" /\ ~V
             /\ IF sil + 1 > p.isil \/ Len(buf) + 1 >= p.max
                THEN Set("SILENCE", <<>>, sil + 1, icount, startf, contig, NoTok)
                ELSE Set(st, B1, sil + 1, icount, startf, contig, NoTok)
NValid(V)    == /\ pc = "proc" /\ stream' = Append(stream, V) /\ st = "NOISE" /\ V
             /\ IF Len(B1) >= p.max THEN Deliver(st, B1, TRUE, sil, icount, startf)
                                    ELSE Set(st, B1, sil, icount, startf, contig, NoTok)
NInvalid(V)  == /\ pc = "proc" /\ stream' = Append(stream, V) /\ st = "NOISE" /\ ~V
             /\ IF p.sil <= 0 THEN Deliver("SILENCE", buf, FALSE, sil, icount, startf)
                ELSE IF Len(B1) = p.max THEN Deliver("POSSIBLE_SILENCE", B1, TRUE, 1, icount, startf)
                                        ELSE Set("POSSIBLE_SILENCE", B1, 1, icount, startf, contig, NoTok)
PSValid(V)   == /\ pc = "proc" /\ stream' = Append(stream, V) /\ st = "POSSIBLE_SILENCE" /\ V
             /\ IF Len(B1) >= p.max THEN Deliver("NOISE", B1, TRUE, 0, icount, startf)
                                    ELSE Set("NOISE", B1, 0, icount, startf, contig, NoTok)
PSInvalid(V) == /\ pc = "proc" /\ stream' = Append(stream, V) /\ st = "POSSIBLE_SILENCE" /\ ~V
             /\ IF sil >= p.sil
                THEN IF sil < Len(buf) THEN Deliver("SILENCE", buf, FALSE, sil, icount, startf)
                     ELSE Set("SILENCE", <<>>, 0, icount, startf, IF FixD1 THEN FALSE ELSE contig, NoTok)
                ELSE IF Len(B1) >= p.max THEN Deliver(st, B1, TRUE, sil + 1, icount, startf)
                                         ELSE Set(st, B1, sil + 1, icount, startf, contig, NoTok)

Emit == /\ pc = "emit" /\ out' = Append(out, pending) /\ pending' = NoTok
        /\ pc' = IF cur >= Len(stream) THEN "done" ELSE "read"
        /\ UNCHANGED <<p, stream, st, buf, sil, icount, startf, cur, contig>>

\* source returns None: cur is incremented, _post_process
ReadEOS == /\ pc = "read"
           /\ cur' = cur + 1
           /\ IF st \in {"NOISE", "POSSIBLE_SILENCE"} /\ Len(buf) > 0 /\ Len(buf) > sil
              THEN LET b1 == IF p.drop /\ sil > 0 THEN Prefix(buf, Len(buf) - sil) ELSE buf IN
                   IF Len(b1) >= p.min \/ (Len(b1) > 0 /\ ~p.strict /\ contig)
                   THEN /\ pending' = [frames |-> b1, start |-> startf, end |-> startf + Len(b1) - 1, at |-> cur + 1]
                        /\ pc' = "emit" /\ buf' = <<>> /\ contig' = FALSE
                   ELSE /\ pending' = NoTok /\ pc' = "done" /\ buf' = <<>> /\ contig' = FALSE
              ELSE /\ pending' = NoTok /\ pc' = "done" /\ UNCHANGED <<buf, contig>>
           /\ UNCHANGED <<p, stream, st, sil, icount, startf, out>>

Next == \/ ReadFrame
        \/ \E v \in BOOLEAN : SilSkip(v) \/ SilStart(v) \/ PNValid(v) \/ PNInvalid(v) \/ NValid(v) \/ NInvalid(v) \/ PSValid(v) \/ PSInvalid(v)
        \/ Emit \/ ReadEOS

Spec == Init /\ [][Next]_vars

---------------------------------------------------------------------
N == Len(stream)
TLen(t) == Len(t.frames)
\* C01
C01 == \A i \in 1..Len(out) :
          LET t == out[i] IN
          /\ TLen(t) >= 1 /\ t.end - t.start + 1 = TLen(t) /\ 0 <= t.start /\ t.end < N
          /\ \A k \in 1..TLen(t) : t.frames[k] = t.start + k - 1
          /\ (i > 1 => out[i-1].end < t.start)
\* C02
IsCont(i) == i > 1 /\ TLen(out[i-1]) = p.max /\ out[i-1].end + 1 = out[i].start
C02 == \A i \in 1..Len(out) :
          /\ TLen(out[i]) <= p.max
          /\ (TLen(out[i]) < p.min => (~p.strict /\ IsCont(i)))
\* C03
Valid(k) == stream[k + 1]
MaxRun == IF p.imin > 1 THEN (IF p.sil > p.isil THEN p.sil ELSE p.isil) ELSE p.sil
\* run of invalid frames ending at index k (inclusive), not crossing non-contiguous token boundaries
C03 == \A i \in 1..Len(out) :
          LET t == out[i] IN
          /\ \E k \in t.start..t.end : Valid(k)
          /\ (~IsCont(i) => Valid(t.start))
          /\ (p.drop /\ TLen(t) < p.max => Valid(t.end))
          /\ \A a \in t.start..t.end :   \* no window of MaxRun+1 invalid frames inside the chain of contiguous tokens
               LET lo == a - MaxRun IN
               ~( /\ lo >= 0
                  /\ \A k \in lo..a : ~Valid(k)
                  /\ \* all frames lo..a belong to tokens of the same contiguous chain ending at i
                     \A k \in lo..a : \E j \in 1..i : /\ out[j].start <= k /\ k <= out[j].end
                                                     /\ \A m \in (j+1)..i : IsCont(m) )
\* C08 latency
C08 == \A i \in 1..Len(out) :
          LET t == out[i] IN
          \/ (TLen(t) = p.max /\ t.at = t.end)
          \/ (t.at <= t.end + p.sil + 1 /\ t.at > t.end /\ t.at < N)     \* decided by first frame of excess silence
          \/ (pc = "done" /\ i = Len(out) /\ t.at = N)                    \* end of stream flush

\* ---- C04: declarative greedy segmentation (independent of the automaton) ----
Min2(a, b) == IF a < b THEN a ELSE b
SetMax(S) == CHOOSE x \in S : \A y \in S : y <= x
SetMin(S) == CHOOSE x \in S : \A y \in S : x <= y
RECURSIVE StretchEnd(_)
StretchEnd(e) == LET nxt == {k \in (e+1)..Min2(e + p.sil + 1, N - 1) : Valid(k)} IN
                 IF nxt = {} THEN e ELSE StretchEnd(SetMax(nxt))
PieceTok(s, x, j) ==
   LET a == s + j * p.max
       b == Min2(a + p.max - 1, x)
       vs == {k \in a..b : Valid(k)}
   IN IF b - a + 1 = p.max THEN <<[start |-> a, end |-> b]>>
      ELSE IF vs = {} THEN <<>>
      ELSE LET b2 == IF p.drop THEN SetMax(vs) ELSE b IN
           IF (b2 - a + 1 >= p.min) \/ (~p.strict /\ j > 0) THEN <<[start |-> a, end |-> b2]>> ELSE <<>>
RECURSIVE Pieces(_, _, _)
Pieces(s, x, j) == IF s + j * p.max > x THEN <<>> ELSE PieceTok(s, x, j) \o Pieces(s, x, j + 1)
RECURSIVE Seg(_)
Seg(i) == LET vs == {k \in i..(N-1) : Valid(k)} IN
          IF vs = {} THEN <<>>
          ELSE LET s == SetMin(vs)
                   e == StretchEnd(s)
                   x == Min2(e + p.sil, N - 1)
               IN Pieces(s, x, 0) \o Seg(x + 1)
OutSE == [i \in 1..Len(out) |-> [start |-> out[i].start, end |-> out[i].end]]
C04 == (pc = "done" /\ p.imin <= 1) => OutSE = Seg(0)
====================================================================
