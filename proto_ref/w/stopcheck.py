import sys, struct, random, wave, os, tempfile, threading
sys.path.insert(0,'/tmp/proto/w')
import sched as S
from auditok import AudioReader, split
from auditok.io import BufferAudioSource
W=S.W
def run(seed, stop_after, pat):
    rng=random.Random(seed)
    S.SCHED=S.Sched(lambda en,s: rng.choice(en))
    data=b"".join(struct.pack("<h",20000 if c=="1" else 0) for c in pat)
    nread=[0]
    class Src(BufferAudioSource):
        def read(self,size):
            S.SCHED.point("src_read"); d=super().read(size)
            if d is not None: nread[0]+=len(d)//2
            return d
    reader=AudioReader(Src(data,10,2,1), block_dur=0.1)
    got={1:[]}
    class Obs(W.Worker):
        def __init__(s): super().__init__(timeout=0.01)
        def _process_message(s,m): got[1].append((m[0], round(m[1].start*10), round(m[1].end*10), bytes(m[1])))
    o1=Obs(); o1._ctl_name="obs1"
    tmp=tempfile.mkdtemp(); fn=os.path.join(tmp,"s.wav")
    saver=W.StreamSaverWorker(reader, fn, cache_size_sec=0.25); saver._ctl_name="saver"
    kw=dict(min_dur=0.2,max_dur=0.4,max_silence=0.1,energy_threshold=50)
    tw=W.TokenizerWorker(saver,[o1],**kw); tw._ctl_name="tok"
    def main():
        S.SCHED.register_current("main")
        try:
            S.SCHED.point("begin"); saver.start(); tw.start_all()
            for _ in range(stop_after): S.SCHED.point("idle")
            tw.stop_all(); saver.join()
        finally: S.SCHED.finish()
    S.SCHED.alive.add("main"); t=threading.Thread(target=main); t.start(); res=S.SCHED.run(); t.join()
    with wave.open(fn) as w: saved=w.readframes(-1)
    k=nread[0]
    exp=[(i+1, round(r.start*10), round(r.end*10), bytes(r)) for i,r in enumerate(split(data[:2*k], sr=10,sw=2,ch=1, analysis_window=0.1, **kw))]
    return res=="done" and saved==data[:2*k] and got[1]==exp, k, len(exp)
import warnings; warnings.simplefilter("ignore")
rng=random.Random(1); ok=0; tot=0; ks=set()
for i in range(150):
    pat="".join(rng.choice("01") for _ in range(rng.randint(0,14)))
    r,k,ne=run(i, rng.randint(0,60), pat); tot+=1; ok+=r; ks.add((k,ne))
    if not r: print("FAIL", i, pat, k, ne)
print(ok,"/",tot, "distinct (blocks read, detections):", len(ks))
