"""Prototype 2: scheduler with event log suitable for TLC trace validation."""
import sys, threading, collections, queue as _queue, random, os, tempfile, wave, json, struct, warnings
sys.path.insert(0, os.environ.get('AUDITOK_REPO', '/repo'))
warnings.simplefilter("ignore")

class Sched:
    def __init__(self, chooser):
        self.cv = threading.Condition(); self.parked = {}; self.grant = {}
        self.alive = set(); self.finished = set(); self.names = {}; self.chooser = chooser
        self.events = []; self.qnames = {}
    def me(self): return self.names.get(threading.get_ident())
    def register_current(self, name): self.names[threading.get_ident()] = name; self.alive.add(name)
    def point(self, kind, info=None):
        name = self.me()
        if name is None: return "pass"
        with self.cv:
            self.parked[name] = (kind, info); self.cv.notify_all()
            while name not in self.grant: self.cv.wait()
            d = self.grant.pop(name); del self.parked[name]
        return d
    def note(self, **kw):            # called by the running thread after it performed the granted op
        if self.me() is None: return
        self.events.append(dict(th=self.me(), **kw))
    def finish(self):
        name = self.me()
        with self.cv:
            self.events.append(dict(th=name, pt="end"))
            self.alive.discard(name); self.finished.add(name); self.cv.notify_all()
    def enabled(self):
        en = []
        for name, (kind, info) in self.parked.items():
            if kind == "get": en.append((name, "deliver" if info.items else "timeout"))
            elif kind == "join":
                if info in self.finished: en.append((name, "go"))
            else: en.append((name, "go"))
        return sorted(en)
    def run(self, max_steps=20000):
        steps = 0
        while True:
            with self.cv:
                while any(n not in self.parked for n in self.alive) or self.grant: self.cv.wait(timeout=5)
                if not self.alive: return "done"
                en = self.enabled()
                if not en: return "deadlock"
                name, d = self.chooser(en, self)
                self.grant[name] = d; self.cv.notify_all()
            steps += 1
            if steps > max_steps: return "budget"

SCHED = None
def absmsg(x):
    if isinstance(x, str): return {"k": "stop"}
    if isinstance(x, tuple): return {"k": "det", "id": x[0]}
    if isinstance(x, (bytes, bytearray)): return {"k": "blk", "n": len(x)}
    return {"k": "other"}
class CtlQueue:
    def __init__(self, maxsize=0): self.items = collections.deque(); self.owner = SCHED
    def name(self): return SCHED.qnames.get(id(self), "?")
    def stale(self): return self.owner is not SCHED
    def put(self, x):
        if self.stale(): self.items.append(x); return
        SCHED.point("put", self); self.items.append(x); SCHED.note(pt="put", q=self.name(), msg=absmsg(x))
    def get(self, block=True, timeout=None):
        if self.stale():
            if not self.items: raise _queue.Empty
            return self.items.popleft()
        d = SCHED.point("get", self)
        if d == "timeout" or (d == "pass" and not self.items):
            SCHED.note(pt="timeout", q=self.name()); raise _queue.Empty
        x = self.items.popleft(); SCHED.note(pt="get", q=self.name(), msg=absmsg(x)); return x
    def get_nowait(self):
        if self.stale():
            if not self.items: raise _queue.Empty
            return self.items.popleft()
        SCHED.point("get_nowait", self)
        if not self.items:
            SCHED.note(pt="poll", q=self.name(), msg={"k": "none"}); raise _queue.Empty
        x = self.items.popleft(); SCHED.note(pt="poll", q=self.name(), msg=absmsg(x)); return x

import auditok.workers as W
W.Queue = CtlQueue
_os, _oj = threading.Thread.start, threading.Thread.join
def ctl_start(self):
    name = self._ctl_name; run = self.run
    def wrapped():
        SCHED.register_current(name); SCHED.point("begin"); SCHED.note(pt="begin")
        try: run()
        finally: SCHED.finish()
    self.run = wrapped
    SCHED.point("start", name)
    with SCHED.cv: SCHED.alive.add(name)
    SCHED.note(pt="start", target=name)
    _os(self)
def ctl_join(self, timeout=None):
    SCHED.point("join", self._ctl_name); SCHED.note(pt="join", target=self._ctl_name); _oj(self)
W.Worker.start = ctl_start; W.Worker.join = ctl_join

def scenario(seed, pat, nobs, use_saver, stop_after, params):
    """returns dict(trace) ; params = (min,max,sil) in windows ; 10 Hz, 1 sample/window"""
    global SCHED
    from auditok import AudioReader
    from auditok.io import BufferAudioSource
    from auditok.util import AudioEnergyValidator
    import gc; gc.collect()
    rng = random.Random(seed)
    SCHED = Sched(lambda en, s: rng.choice(en))
    data = b"".join(struct.pack("<h", 20000 if c == "1" else 0) for c in pat)
    class Src(BufferAudioSource):
        def read(self, size):
            SCHED.point("src_read"); d = super().read(size)
            SCHED.note(pt="src_read", got=(len(d) // 2 if d else 0)); return d
    reader = AudioReader(Src(data, 10, 2, 1), block_dur=0.1)
    real_val = AudioEnergyValidator(50, 2, 1)
    def val(frame):
        v = bool(real_val.is_valid(frame)); SCHED.note(pt="V", v=v); return v
    got = {}
    class Obs(W.Worker):
        def __init__(s, k): s.k = k; got[k] = []; super().__init__(timeout=0.01)
        def _process_message(s, m): got[s.k].append(m[0])
    obs = [Obs(i + 1) for i in range(nobs)]
    for i, o in enumerate(obs): o._ctl_name = "o%d" % (i + 1); SCHED.qnames[id(o._inbox)] = o._ctl_name
    tmp = tempfile.mkdtemp(); fn = os.path.join(tmp, "s.wav")
    src = reader
    if use_saver:
        saver = W.StreamSaverWorker(reader, fn, cache_size_sec=0.2); saver._ctl_name = "saver"
        SCHED.qnames[id(saver._inbox)] = "saver"; src = saver
    mn, mx, sl = params
    tw = W.TokenizerWorker(src, obs, min_dur=mn / 10, max_dur=mx / 10, max_silence=sl / 10, validator=val)
    tw._ctl_name = "tok"; SCHED.qnames[id(tw._inbox)] = "tok"
    def main():
        SCHED.register_current("main")
        try:
            SCHED.point("begin"); SCHED.note(pt="begin")
            if use_saver: saver.start()
            tw.start_all()
            if stop_after is None:
                tw.join()
                for o in obs: o.join()
                if use_saver: saver.join()
            else:
                for _ in range(stop_after): SCHED.point("idle"); SCHED.note(pt="idle")
                tw.stop_all()
        finally: SCHED.finish()
    SCHED.alive.add("main"); t = threading.Thread(target=main); t.start(); res = SCHED.run(); t.join()
    saved = None
    if use_saver:
        with wave.open(fn) as w: saved = len(w.readframes(-1)) // 2
    return {"cfg": {"nobs": nobs, "saver": use_saver, "p": {"min": mn, "max": mx, "sil": sl, "imin": 0, "isil": 0, "strict": False, "drop": False}},
            "ev": SCHED.events, "final": {"status": res, "processed": [got[k] for k in sorted(got)], "saved": saved,
            "dets": [d.id for d in tw.detections]}}

if __name__ == "__main__":
    rng = random.Random(int(sys.argv[1])); n = int(sys.argv[2]); out = []
    for i in range(n):
        pat = "".join(rng.choice("01") for _ in range(rng.randint(0, 8)))
        mx = rng.randint(1, 3); mn = rng.randint(1, mx); sl = rng.randint(0, mx - 1)
        out.append(scenario(rng.random(), pat, rng.randint(0, 2), rng.random() < .6, rng.choice([None, None, rng.randint(0, 50)]), (mn, mx, sl)))
    json.dump(out, open("/tmp/proto/w/wtraces.json", "w"))
    print(n, "traces", sum(len(t["ev"]) for t in out), "events", collections.Counter(t["final"]["status"] for t in out))
    print(json.dumps(out[0]["ev"][:40]))
