"""Prototype: deterministic scheduler for auditok.workers threads (no repo edits)."""
import sys, threading, collections, queue as _queue, random, io, os, tempfile, wave
sys.path.insert(0, '/repo')

class Sched:
    def __init__(self, chooser):
        self.cv = threading.Condition()
        self.parked = {}      # name -> (kind, info)
        self.grant = {}       # name -> decision
        self.alive = set()
        self.finished = set()
        self.names = {}       # thread ident -> name
        self.chooser = chooser
        self.log = []
    def me(self):
        return self.names.get(threading.get_ident())
    def register_current(self, name):
        self.names[threading.get_ident()] = name
        self.alive.add(name)
    def point(self, kind, info=None):
        """called by managed threads at scheduling points; returns decision"""
        name = self.me()
        if name is None:
            return "pass"           # unmanaged thread (e.g. GC finalizer)
        with self.cv:
            self.parked[name] = (kind, info)
            self.cv.notify_all()
            while name not in self.grant:
                self.cv.wait()
            d = self.grant.pop(name)
            del self.parked[name]
            return d
    def finish(self):
        name = self.me()
        with self.cv:
            self.alive.discard(name); self.finished.add(name)
            self.cv.notify_all()
    def enabled(self):
        en = []
        for name, (kind, info) in self.parked.items():
            if kind == "get":
                en.append((name, "deliver") if info.items else (name, "timeout"))
            elif kind == "join":
                if info in self.finished: en.append((name, "go"))
            else:
                en.append((name, "go"))
        return sorted(en)
    def run(self, max_steps=100000):
        steps = 0
        while True:
            with self.cv:
                # wait until every alive thread is parked
                while any(n not in self.parked for n in self.alive) or self.grant:
                    self.cv.wait(timeout=5)
                if not self.alive:
                    return "done"
                en = self.enabled()
                if not en:
                    return "deadlock:" + repr(self.parked)
                name, d = self.chooser(en, self)
                self.log.append((name, self.parked[name][0], d))
                self.grant[name] = d
                self.cv.notify_all()
            steps += 1
            if steps > max_steps: return "too long"

SCHED = None
class CtlQueue:
    def __init__(self, maxsize=0):
        self.items = collections.deque()
    def put(self, x):
        SCHED.point("put", self); self.items.append(x)
    def get(self, block=True, timeout=None):
        d = SCHED.point("get", self)
        if d == "timeout": raise _queue.Empty
        if d == "pass" and not self.items: raise _queue.Empty
        return self.items.popleft()
    def get_nowait(self):
        SCHED.point("get_nowait", self)
        if not self.items: raise _queue.Empty
        return self.items.popleft()

import auditok.workers as W
W.Queue = CtlQueue
_orig_start, _orig_join = threading.Thread.start, threading.Thread.join
def ctl_start(self):
    name = getattr(self, "_ctl_name", None) or type(self).__name__ + str(id(self) % 1000)
    self._ctl_name = name
    run = self.run
    def wrapped():
        SCHED.register_current(name)
        SCHED.point("begin")
        try: run()
        finally: SCHED.finish()
    self.run = wrapped
    SCHED.point("start", name)
    with SCHED.cv: SCHED.alive.add(name)     # counted as alive from the moment start() is granted
    _orig_start(self)
def ctl_join(self, timeout=None):
    SCHED.point("join", self._ctl_name)
    _orig_join(self)
W.Worker.start = ctl_start
W.Worker.join = ctl_join

def demo(seed, stop_after=None):
    global SCHED
    from auditok import AudioReader
    from auditok.io import BufferAudioSource
    import struct
    rng = random.Random(seed)
    def chooser(en, s):
        return rng.choice(en)
    SCHED = Sched(chooser)
    # 10 Hz, 1 sample per window; pattern of loud/quiet
    pat = "0011100110111110001"
    data = b"".join(struct.pack("<h", 20000 if c == "1" else 0) for c in pat)
    class Src(BufferAudioSource):
        def read(self, size):
            SCHED.point("src_read"); return super().read(size)
    reader = AudioReader(Src(data, 10, 2, 1), block_dur=0.1)
    got = {1: [], 2: []}
    class Obs(W.Worker):
        def __init__(self, k): self.k = k; super().__init__(timeout=0.01)
        def _process_message(self, m): got[self.k].append((m[0], m[1].meta.start, m[1].meta.end))
    o1, o2 = Obs(1), Obs(2); o1._ctl_name, o2._ctl_name = "obs1", "obs2"
    tmp = tempfile.mkdtemp(); fn = os.path.join(tmp, "s.wav")
    saver = W.StreamSaverWorker(reader, fn, cache_size_sec=0.3); saver._ctl_name = "saver"
    tw = W.TokenizerWorker(saver, [o1, o2], min_dur=0.2, max_dur=0.4, max_silence=0.1, energy_threshold=50)
    tw._ctl_name = "tok"
    def main():
        SCHED.register_current("main")
        try:
            SCHED.point("begin")
            saver.start()
            tw.start_all()
            if stop_after is None:
                tw.join(); o1.join(); o2.join(); saver.join()
            else:
                for _ in range(stop_after): SCHED.point("idle")
                tw.stop_all()
                saver.join()
        finally:
            SCHED.finish()
    SCHED.alive.add("main")
    t = threading.Thread(target=main); t.start()
    res = SCHED.run()
    t.join()
    with wave.open(fn) as w: saved = w.readframes(-1)
    return res, got, tw.detections, len(SCHED.log), saved == data, len(saved)//2

if __name__ == "__main__":
    for seed in range(5):
        res, got, dets, n, same, ns = demo(seed)
        print(seed, res, n, "steps", [d[:3] for d in dets] == got[1] == got[2], len(dets), same)
    for seed in range(5):
        res, got, dets, n, same, ns = demo(seed, stop_after=seed * 7)
        print("stop", seed, res, n, "steps", [tuple(d[:3]) for d in dets] == got[1] == got[2], len(dets), same, ns)
