import sys, json, time
sys.path.insert(0, sys.argv[1])
from auditok.core import StreamTokenizer
t0=time.time(); n=bad=0
for line in open('/tmp/proto/export.out'):
    if not line.startswith('"{'): continue
    b=json.loads(json.loads(line)); p=b["p"]; s=b["s"]; n+=1
    if n % 8: continue          # sample 1/8 for timing
    reads=[0]
    class Src:
        def read(self):
            i=reads[0]; reads[0]+=1
            return (i, s[i]) if i < len(s) else None
    tk=StreamTokenizer(lambda f: f[1], p["min"], p["max"], p["sil"], init_min=p["imin"], init_max_silence=p["isil"], mode=(2 if p["strict"] else 0)|(4 if p["drop"] else 0))
    got=[]; at=[]
    for d,st,en in tk.tokenize(Src(), generator=True):
        got.append({"start":st,"end":en}); at.append(reads[0]-1)
        assert [f[0] for f in d]==list(range(st,en+1))
    if got!=b["o"] or at!=b["at"]:
        bad+=1
        if bad<4: print("MISMATCH", b, got, at)
print(n, "behaviours", n//8, "replayed", bad, "mismatches", round(time.time()-t0,1), "s")
