---------------------------- MODULE WkTrace ----------------------------
EXTENDS Wk, Json, IOUtils, TLCExt
Traces == JsonDeserialize(IOEnv.TRACE_FILE)
VARIABLES tid, l
Ev == Traces[tid].ev
E == Ev[l]
tv == <<allvars, tid, l>>
TInit == /\ tid \in 1..Len(Traces) /\ l = 1
         /\ Init /\ p = Traces[tid].cfg.p
         /\ inbox = [t \in Threads |-> <<>>]
         /\ tpc = "unstarted" /\ nidx = 1
         /\ opc = [o \in Obs |-> "unstarted"] /\ processed = [o \in Obs |-> <<>>]
         /\ spc = "unstarted" /\ cache = <<>> /\ file = <<>> /\ fclosed = FALSE
         /\ mpc = (IF UseSaver THEN "start_saver" ELSE "start_obs") /\ midx = 1
         /\ dets = <<>> /\ blocksRead = <<>>
Has(f) == f \in DOMAIN E
Is(th, pt) == l <= Len(Ev) /\ E.th = th /\ E.pt = pt /\ l' = l + 1 /\ tid' = tid
Stutter == UNCHANGED allvars
OIdx(name) == CHOOSE i \in Obs : ON(i) = name
Kind(m) == m.k
\* ---- main
TMain == \/ Is("main", "begin") /\ Stutter
         \/ Is("main", "idle") /\ Stutter
         \/ Is("main", "start") /\ E.target = "saver" /\ MStartSaver
         \/ Is("main", "start") /\ E.target \in {ON(i) : i \in Obs} /\ midx = OIdx(E.target) /\ MStartObs
         \/ Is("main", "start") /\ E.target = "tok" /\ midx > NObs /\ MStartObs
         \/ Is("main", "join") /\ E.target = "tok" /\ (MJoinTok \/ MSJoinTok)
         \/ Is("main", "join") /\ E.target \in {ON(i) : i \in Obs} /\ midx = OIdx(E.target) /\ (MJoinObs \/ MSJoinObs)
         \/ Is("main", "join") /\ E.target = "saver" /\ MJoinSaver
         \/ Is("main", "put") /\ E.q = "tok" /\ Kind(E.msg) = "stop" /\ MStopTok
         \/ Is("main", "put") /\ E.q \in {ON(i) : i \in Obs} /\ Kind(E.msg) = "stop" /\ midx = OIdx(E.q) /\ midx <= NObs /\ MSStopObs
         \/ Is("main", "put") /\ E.q = "saver" /\ Kind(E.msg) = "stop" /\ MSStopSaver
         \/ Is("main", "end") /\ mpc = "done" /\ Stutter
\* ---- tokenizer thread
TTok == \/ Is("tok", "begin") /\ TBegin
        \/ Is("tok", "poll") /\ TPoll /\ (Kind(E.msg) = "none" <=> inbox["tok"] = <<>>)
        \/ Is("tok", "src_read") /\ E.got > 0 /\ TRead
        \/ Is("tok", "src_read") /\ E.got = 0 /\ TReadNone
        \/ Is("tok", "put") /\ E.q = "saver" /\ Kind(E.msg) = "blk" /\ TFwd
        \/ Is("tok", "put") /\ E.q = "saver" /\ Kind(E.msg) = "stop" /\ (TFwdStop \/ TStopSaver)
        \/ Is("tok", "V") /\ tpc = "proc" /\ LET v == E.v IN
              /\ (SilSkip(v) \/ SilStart(v) \/ PNValid(v) \/ PNInvalid(v) \/ NValid(v) \/ NInvalid(v) \/ PSValid(v) \/ PSInvalid(v))
              /\ tpc' = AfterTok /\ nidx' = 1
              /\ UNCHANGED <<inbox, opc, processed, spc, cache, file, fclosed, mpc, midx, dets, blocksRead>>
        \/ Is("tok", "put") /\ E.q \in {ON(i) : i \in Obs} /\ Kind(E.msg) = "det" /\ nidx = OIdx(E.q) /\ TNotify /\ E.msg.id = Len(dets)
        \/ Is("tok", "put") /\ E.q \in {ON(i) : i \in Obs} /\ Kind(E.msg) = "stop" /\ nidx = OIdx(E.q) /\ nidx <= NObs /\ TStopObs
        \/ Is("tok", "join") /\ E.target = "saver" /\ TJoinSaver
        \/ Is("tok", "end") /\ tpc = "done" /\ Stutter
\* ---- observers
TObs == \E o \in Obs :
        \/ Is(ON(o), "begin") /\ OBegin(o)
        \/ Is(ON(o), "get") /\ OGet(o) /\ Kind(E.msg) = Kind(Head(inbox[ON(o)])) /\ (Kind(E.msg) = "det" => E.msg.id = Head(inbox[ON(o)]).id)
        \/ Is(ON(o), "timeout") /\ OTimeout(o)
        \/ Is(ON(o), "end") /\ opc[o] = "done" /\ Stutter
\* ---- saver
TSav == \/ Is("saver", "begin") /\ SBegin
        \/ Is("saver", "get") /\ SGet /\ Kind(E.msg) = Kind(Head(inbox["saver"]))
        \/ Is("saver", "timeout") /\ STimeout
        \/ Is("saver", "poll") /\ SDrain /\ (Kind(E.msg) = "none" <=> inbox["saver"] = <<>>)
        \/ Is("saver", "end") /\ spc = "done" /\ Stutter
\* ---- silent (unlogged, thread-local) steps of the specification
Silent == /\ l <= Len(Ev) /\ UNCHANGED <<tid, l>>
          /\ \/ TEmit \/ TEos
             \/ (tpc = "stopobs" /\ nidx > NObs /\ TStopObs)
             \/ (mpc = "join_obs" /\ midx > NObs /\ MJoinObs)
             \/ (mpc = "s_stop_obs" /\ midx > NObs /\ MSStopObs)
TNext == TMain \/ TTok \/ TObs \/ TSav \/ Silent
TSpec == TInit /\ [][TNext]_tv
Progress == TLCSet(tid, IF TLCGet(tid) > l THEN TLCGet(tid) ELSE l)
ASSUME \A t \in 1..Len(Traces) : TLCSet(t, 0)
Post == \A t \in 1..Len(Traces) : PrintT(<<"TRACE", t, TLCGet(t), Len(Traces[t].ev) + 1>>)
\* final-state monitors (observation level): compare with what the harness saw at the end
FinalOK == (l = Len(Ev) + 1) =>
             /\ AllDone
             /\ \A o \in Obs : processed[o] = Traces[tid].final.processed[o]
             /\ dets = Traces[tid].final.dets
             /\ (UseSaver => Len(file) = Traces[tid].final.saved)
=========================================================================
