---------------------------- MODULE TokInt ----------------------------
EXTENDS Integers
CONSTANTS
  \* @type: Int;
  MinL,
  \* @type: Int;
  MaxL,
  \* @type: Int;
  MaxS
ASSUME MaxL > 0 /\ MinL > 0 /\ MinL <= MaxL /\ MaxS >= 0 /\ MaxS < MaxL
VARIABLES
  \* @type: Str;
  st,
  \* @type: Int;
  n,
  \* @type: Int;
  sil,
  \* @type: Int;
  emitted
\* init_min <= 1 abstraction: states S, N, PS ; n = buffer length ; emitted = length of token emitted by the last step (0 = none)
Init == st = "S" /\ n = 0 /\ sil = 0 /\ emitted = 0
Valid == \/ st = "S" /\ (IF 1 >= MaxL THEN n' = 0 /\ emitted' = 1 ELSE n' = 1 /\ emitted' = 0) /\ st' = "N" /\ sil' = 0
         \/ st = "N" /\ (IF n + 1 >= MaxL THEN n' = 0 /\ emitted' = n + 1 ELSE n' = n + 1 /\ emitted' = 0) /\ st' = "N" /\ sil' = sil
         \/ st = "PS" /\ (IF n + 1 >= MaxL THEN n' = 0 /\ emitted' = n + 1 ELSE n' = n + 1 /\ emitted' = 0) /\ st' = "N" /\ sil' = 0
Invalid == \/ st = "S" /\ UNCHANGED <<st, n, sil>> /\ emitted' = 0
           \/ st = "N" /\ MaxS <= 0 /\ st' = "S" /\ n' = 0 /\ sil' = sil /\ emitted' \in 0..n
           \/ st = "N" /\ MaxS > 0 /\ st' = "PS" /\ sil' = 1
                /\ (IF n + 1 = MaxL THEN n' = 0 /\ emitted' = n + 1 ELSE n' = n + 1 /\ emitted' = 0)
           \/ st = "PS" /\ sil >= MaxS /\ st' = "S" /\ n' = 0 /\ sil' = 0 /\ emitted' \in 0..n
           \/ st = "PS" /\ sil < MaxS /\ st' = "PS" /\ sil' = sil + 1
                /\ (IF n + 1 >= MaxL THEN n' = 0 /\ emitted' = n + 1 ELSE n' = n + 1 /\ emitted' = 0)
Next == Valid \/ Invalid
IndInv == /\ st \in {"S", "N", "PS"} /\ n >= 0 /\ n < MaxL /\ sil >= 0 /\ sil <= MaxS
          /\ emitted >= 0 /\ emitted <= MaxL
          /\ (st = "N" => sil = 0) /\ (st = "S" => n = 0)
CInit == MaxL \in Int /\ MinL \in Int /\ MaxS \in Int /\ MaxL > 0 /\ MinL > 0 /\ MinL <= MaxL /\ MaxS >= 0 /\ MaxS < MaxL
IndInit == st \in {"S", "N", "PS"} /\ n \in Int /\ sil \in Int /\ emitted \in Int /\ IndInv
Safe == emitted <= MaxL /\ n < MaxL
=======================================================================
