CONSTANTS MaxFrames = 8 MaxLenBound = 4 SilBound = 2 InitMinBound = 3 InitSilBound = 2 FixD1 = TRUE FixD2 = TRUE
SPECIFICATION Spec
INVARIANT C01
INVARIANT C02
INVARIANT C03
INVARIANT C08
INVARIANT C04
CHECK_DEADLOCK FALSE
