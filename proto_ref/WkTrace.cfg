CONSTANTS MaxFrames = 100000 MaxLenBound = 3 SilBound = 2 InitMinBound = 2 InitSilBound = 1 FixD1 = TRUE FixD2 = TRUE
 NObs = 2 UseSaver = TRUE CacheBlocks = 2 AllowStop = TRUE
 P0 <- P0def
SPECIFICATION TSpec
INVARIANT C12Safe
INVARIANT C13Safe
INVARIANT C14Safe
INVARIANT FinalOK
CONSTRAINT Progress
POSTCONDITION Post
CHECK_DEADLOCK FALSE
