---------------------------- MODULE WkMut ----------------------------
EXTENDS Tok
CONSTANTS NObs, UseSaver, CacheBlocks, AllowStop, P0

VARIABLES inbox, tpc, nidx, opc, processed, spc, cache, file, fclosed, mpc, midx, dets, blocksRead
wvars == <<inbox, tpc, nidx, opc, processed, spc, cache, file, fclosed, mpc, midx, dets, blocksRead>>
allvars == <<vars, wvars>>
Obs == 1..NObs
ON(i) == <<"o1", "o2", "o3">>[i]
Threads == {"tok", "saver"} \cup {ON(i) : i \in Obs}
Stop == [k |-> "stop"]
TokVarsUnch == UNCHANGED vars

WInit == /\ Init /\ p = P0
         /\ inbox = [t \in Threads |-> <<>>]
         /\ tpc = "unstarted" /\ nidx = 1
         /\ opc = [o \in Obs |-> "unstarted"] /\ processed = [o \in Obs |-> <<>>]
         /\ spc = "unstarted" /\ cache = <<>> /\ file = <<>> /\ fclosed = FALSE
         /\ mpc = (IF UseSaver THEN "start_saver" ELSE "start_obs") /\ midx = 1
         /\ dets = <<>> /\ blocksRead = <<>>

Put(t, m) == inbox' = [inbox EXCEPT ![t] = Append(@, m)]

(* ---------------- main thread ---------------- *)
MStartSaver == mpc = "start_saver" /\ spc = "unstarted" /\ spc' = "begin" /\ mpc' = "start_obs"
               /\ UNCHANGED <<vars, inbox, tpc, nidx, opc, processed, cache, file, fclosed, midx, dets, blocksRead>>
MStartObs == /\ mpc = "start_obs"
             /\ IF midx <= NObs
                THEN /\ opc' = [opc EXCEPT ![midx] = "begin"] /\ midx' = midx + 1 /\ mpc' = mpc /\ tpc' = tpc
                ELSE /\ tpc' = "begin" /\ mpc' = "running" /\ midx' = 1 /\ opc' = opc
             /\ UNCHANGED <<vars, inbox, nidx, processed, spc, cache, file, fclosed, dets, blocksRead>>
\* natural end: join tok, observers, saver
MJoinTok == mpc = "running" /\ tpc = "done" /\ mpc' = "join_obs" /\ midx' = 1
            /\ UNCHANGED <<vars, inbox, tpc, nidx, opc, processed, spc, cache, file, fclosed, dets, blocksRead>>
MJoinObs == /\ mpc = "join_obs"
            /\ IF midx <= NObs THEN opc[midx] = "done" /\ midx' = midx + 1 /\ mpc' = mpc
                               ELSE mpc' = (IF UseSaver THEN "join_saver" ELSE "done") /\ midx' = midx
            /\ UNCHANGED <<vars, inbox, tpc, nidx, opc, processed, spc, cache, file, fclosed, dets, blocksRead>>
MJoinSaver == mpc = "join_saver" /\ spc = "done" /\ mpc' = "done"
            /\ UNCHANGED <<vars, inbox, tpc, nidx, opc, processed, spc, cache, file, fclosed, midx, dets, blocksRead>>
\* stop_all at any moment while running
MStopTok == AllowStop /\ mpc = "running" /\ Put("tok", Stop) /\ mpc' = "s_join_tok"
            /\ UNCHANGED <<vars, tpc, nidx, opc, processed, spc, cache, file, fclosed, midx, dets, blocksRead>>
MSJoinTok == mpc = "s_join_tok" /\ tpc = "done" /\ mpc' = "s_stop_obs" /\ midx' = 1
            /\ UNCHANGED <<vars, inbox, tpc, nidx, opc, processed, spc, cache, file, fclosed, dets, blocksRead>>
MSStopObs == /\ mpc = "s_stop_obs"
             /\ IF midx <= NObs THEN Put(ON(midx), Stop) /\ mpc' = "s_join_obs" /\ midx' = midx
                ELSE mpc' = (IF UseSaver THEN "s_stop_saver" ELSE "done") /\ midx' = midx /\ inbox' = inbox
             /\ UNCHANGED <<vars, tpc, nidx, opc, processed, spc, cache, file, fclosed, dets, blocksRead>>
MSJoinObs == mpc = "s_join_obs" /\ opc[midx] = "done" /\ midx' = midx + 1 /\ mpc' = "s_stop_obs"
             /\ UNCHANGED <<vars, inbox, tpc, nidx, opc, processed, spc, cache, file, fclosed, dets, blocksRead>>
MSStopSaver == mpc = "s_stop_saver" /\ Put("saver", Stop) /\ mpc' = "join_saver"
             /\ UNCHANGED <<vars, tpc, nidx, opc, processed, spc, cache, file, fclosed, midx, dets, blocksRead>>

(* ---------------- tokenizer thread ---------------- *)
TBegin == tpc = "begin" /\ tpc' = "poll" /\ UNCHANGED <<vars, inbox, nidx, opc, processed, spc, cache, file, fclosed, mpc, midx, dets, blocksRead>>
\* _stop_requested: get_nowait on own inbox
TPoll == /\ tpc = "poll" /\ pc = "read"
         /\ IF inbox["tok"] # <<>>
            THEN /\ inbox' = [inbox EXCEPT !["tok"] = Tail(@)]
                 /\ IF Head(inbox["tok"]) = Stop THEN tpc' = "eos" ELSE tpc' = "read"
            ELSE inbox' = inbox /\ tpc' = "read"
         /\ UNCHANGED <<vars, nidx, opc, processed, spc, cache, file, fclosed, mpc, midx, dets, blocksRead>>
\* the source hands out a block (or None); Tok!ReadFrame / end of data
TRead == /\ tpc = "read" /\ ReadFrame
         /\ blocksRead' = Append(blocksRead, cur + 1)
         /\ tpc' = IF UseSaver THEN "fwd" ELSE "proc"
         /\ UNCHANGED <<inbox, nidx, opc, processed, spc, cache, file, fclosed, mpc, midx, dets>>
TReadNone == /\ tpc = "read" /\ tpc' = IF UseSaver THEN "fwd_stop" ELSE "eos"
             /\ UNCHANGED <<vars, inbox, nidx, opc, processed, spc, cache, file, fclosed, mpc, midx, dets, blocksRead>>
TFwd == /\ tpc = "fwd" /\ Put("saver", [k |-> "blk", i |-> cur]) /\ tpc' = "proc"
        /\ UNCHANGED <<vars, nidx, opc, processed, spc, cache, file, fclosed, mpc, midx, dets, blocksRead>>
TFwdStop == /\ tpc = "fwd_stop" /\ Put("saver", Stop) /\ tpc' = "eos"
        /\ UNCHANGED <<vars, nidx, opc, processed, spc, cache, file, fclosed, mpc, midx, dets, blocksRead>>
\* local processing: Tok proc + emit, until next scheduling point
AfterTok == IF pc' = "emit" THEN "emit" ELSE IF pc' = "done" THEN "stopobs" ELSE "poll"
TProc == /\ tpc = "proc"
         /\ \E v \in BOOLEAN : SilSkip(v) \/ SilStart(v) \/ PNValid(v) \/ PNInvalid(v) \/ NValid(v) \/ NInvalid(v) \/ PSValid(v) \/ PSInvalid(v)
         /\ tpc' = AfterTok /\ nidx' = 1
         /\ UNCHANGED <<inbox, opc, processed, spc, cache, file, fclosed, mpc, midx, dets, blocksRead>>
TEos == /\ tpc = "eos" /\ ReadEOS /\ tpc' = AfterTok /\ nidx' = 1
        /\ UNCHANGED <<inbox, opc, processed, spc, cache, file, fclosed, mpc, midx, dets, blocksRead>>
TEmit == /\ tpc = "emit" /\ Emit /\ dets' = Append(dets, Len(dets) + 1)
         /\ tpc' = (IF NObs > 0 THEN "notify" ELSE (IF pc' = "done" THEN "stopobs" ELSE "poll")) /\ nidx' = 1
         /\ UNCHANGED <<inbox, opc, processed, spc, cache, file, fclosed, mpc, midx, blocksRead>>
TNotify == /\ tpc = "notify" /\ Put(ON(nidx), [k |-> "det", id |-> Len(dets)])
           /\ IF nidx < NObs THEN nidx' = nidx + 1 /\ tpc' = tpc
              ELSE nidx' = 1 /\ tpc' = IF pc = "done" THEN "stopobs" ELSE "poll"
           /\ UNCHANGED <<vars, opc, processed, spc, cache, file, fclosed, mpc, midx, dets, blocksRead>>
TStopObs == /\ tpc = "stopobs"
            /\ IF nidx <= NObs THEN Put(ON(nidx), Stop) /\ nidx' = nidx + 1 /\ tpc' = tpc
               ELSE inbox' = inbox /\ nidx' = nidx /\ tpc' = IF UseSaver THEN "stopsaver" ELSE "done"
            /\ UNCHANGED <<vars, opc, processed, spc, cache, file, fclosed, mpc, midx, dets, blocksRead>>
TStopSaver == tpc = "stopsaver" /\ Put("saver", Stop) /\ tpc' = "joinsaver"
            /\ UNCHANGED <<vars, nidx, opc, processed, spc, cache, file, fclosed, mpc, midx, dets, blocksRead>>
TJoinSaver == tpc = "joinsaver" /\ spc = "done" /\ tpc' = "done"
            /\ UNCHANGED <<vars, inbox, nidx, opc, processed, spc, cache, file, fclosed, mpc, midx, dets, blocksRead>>

(* ---------------- observers ---------------- *)
OBegin(o) == opc[o] = "begin" /\ opc' = [opc EXCEPT ![o] = "get"]
             /\ UNCHANGED <<vars, inbox, tpc, nidx, processed, spc, cache, file, fclosed, mpc, midx, dets, blocksRead>>
OGet(o) == /\ opc[o] = "get" /\ inbox[ON(o)] # <<>>
           /\ LET m == Head(inbox[ON(o)]) IN
              /\ inbox' = [inbox EXCEPT ![ON(o)] = Tail(@)]
              /\ IF m = Stop THEN opc' = [opc EXCEPT ![o] = "done"] /\ processed' = processed
                 ELSE opc' = opc /\ processed' = [processed EXCEPT ![o] = Append(@, m.id)]
           /\ UNCHANGED <<vars, tpc, nidx, spc, cache, file, fclosed, mpc, midx, dets, blocksRead>>
OTimeout(o) == opc[o] = "get" /\ inbox[ON(o)] = <<>> /\ opc' = [opc EXCEPT ![o] = "done"] /\ UNCHANGED <<vars, inbox, tpc, nidx, processed, spc, cache, file, fclosed, mpc, midx, dets, blocksRead>>

(* ---------------- stream saver (writer thread) ---------------- *)
SBegin == spc = "begin" /\ spc' = "get"
          /\ UNCHANGED <<vars, inbox, tpc, nidx, opc, processed, cache, file, fclosed, mpc, midx, dets, blocksRead>>
SGet == /\ spc = "get" /\ inbox["saver"] # <<>>
        /\ LET m == Head(inbox["saver"]) IN
           /\ inbox' = [inbox EXCEPT !["saver"] = Tail(@)]
           /\ IF m = Stop THEN spc' = "drain" /\ UNCHANGED <<cache, file>>
              ELSE /\ spc' = spc
                   /\ IF Len(cache) + 1 >= CacheBlocks THEN file' = file \o Append(cache, m.i) /\ cache' = <<>>
                      ELSE cache' = Append(cache, m.i) /\ file' = file
        /\ UNCHANGED <<vars, tpc, nidx, opc, processed, fclosed, mpc, midx, dets, blocksRead>>
STimeout == spc = "get" /\ inbox["saver"] = <<>> /\ UNCHANGED allvars
SDrain == /\ spc = "drain"
          /\ IF inbox["saver"] # <<>>
             THEN LET m == Head(inbox["saver"]) IN
                  /\ inbox' = [inbox EXCEPT !["saver"] = Tail(@)]
                  /\ cache' = IF m = Stop THEN cache ELSE Append(cache, m.i)
                  /\ UNCHANGED <<spc, file, fclosed>>
             ELSE /\ file' = file \o cache /\ cache' = <<>> /\ fclosed' = TRUE /\ spc' = "done" /\ inbox' = inbox
          /\ UNCHANGED <<vars, tpc, nidx, opc, processed, mpc, midx, dets, blocksRead>>

AllDone == /\ mpc = "done" /\ tpc = "done" /\ \A o \in Obs : opc[o] = "done" /\ (UseSaver => spc = "done")
Finished == AllDone /\ UNCHANGED allvars
WNext == \/ Finished \/ MStartSaver \/ MStartObs \/ MJoinTok \/ MJoinObs \/ MJoinSaver
         \/ MStopTok \/ MSJoinTok \/ MSStopObs \/ MSJoinObs \/ MSStopSaver
         \/ TBegin \/ TPoll \/ TRead \/ TReadNone \/ TFwd \/ TFwdStop \/ TProc \/ TEos \/ TEmit \/ TNotify \/ TStopObs \/ TStopSaver \/ TJoinSaver
         \/ \E o \in Obs : OBegin(o) \/ OGet(o) \/ OTimeout(o)
         \/ SBegin \/ SGet \/ STimeout \/ SDrain

MainNext == MStartSaver \/ MStartObs \/ MJoinTok \/ MJoinObs \/ MJoinSaver \/ MStopTok \/ MSJoinTok \/ MSStopObs \/ MSJoinObs \/ MSStopSaver
TokNext == TBegin \/ TPoll \/ TRead \/ TReadNone \/ TFwd \/ TFwdStop \/ TProc \/ TEos \/ TEmit \/ TNotify \/ TStopObs \/ TStopSaver \/ TJoinSaver
ObsNext(o) == OBegin(o) \/ OGet(o)
SavNext == SBegin \/ SGet \/ SDrain
\* main is only weakly fair on non-stop steps (stop is optional)
WSpec == WInit /\ [][WNext]_allvars
           /\ WF_allvars(MStartSaver \/ MStartObs \/ MJoinTok \/ MJoinObs \/ MJoinSaver \/ MSJoinTok \/ MSStopObs \/ MSJoinObs \/ MSStopSaver)
           /\ WF_allvars(TokNext) /\ \A o \in Obs : WF_allvars(ObsNext(o)) /\ WF_allvars(SavNext)

Termination == <>[]AllDone
DetIds == [i \in 1..Len(out) |-> i]
IsPrefix(a, b) == Len(a) <= Len(b) /\ \A i \in 1..Len(a) : a[i] = b[i]
C12Safe == /\ dets = DetIds
           /\ \A o \in Obs : IsPrefix(processed[o], dets)
           /\ (AllDone => \A o \in Obs : processed[o] = dets)
C13Safe == /\ IsPrefix(file, blocksRead)
           /\ (UseSaver /\ AllDone => file = blocksRead /\ fclosed)
           /\ (~UseSaver => file = <<>>)
C14Safe == AllDone => (pc = "done" /\ OutSE = Seg(0) /\ Len(stream) = Len(blocksRead))
P0def == [min |-> 1, max |-> 2, sil |-> 1, imin |-> 0, isil |-> 0, strict |-> FALSE, drop |-> FALSE]
===================================================================
