---------------------------- MODULE Mic ----------------------------
(* Beyond the listed properties: the PyAudio-backed parts (io.py:528-599 PyAudioSource, io.py:659-738
   PyAudioPlayer, core.py:455-490 _read_chunks_online / load(None, max_read=...)) against a FAKE pyaudio module
   supplied by the harness.  The device is a finite stream of `dev` samples that stays active while samples remain.
   - player: data of n bytes is written to the device in chunks of one tenth of a second, rounded down to whole
     samples; the chunks concatenate to the data (only the last may be shorter);
   - microphone load: load(None, max_read = t) returns the first min(round(t * rate), dev) samples of the device;
   - microphone source: read(k) on an open, active stream hands out the next min(k, remaining) samples, then None.   *)
EXTENDS Naturals, Integers, Sequences, TLC, Json, IOUtils, TLCExt
Cases == JsonDeserialize(IOEnv.TRACE_FILE)
VARIABLES i
Init == i \in 1..Len(Cases)
Next == UNCHANGED i
Spec == Init /\ [][Next]_i
X == Cases[i]
Min2(a, b) == IF a < b THEN a ELSE b
RECURSIVE SumTo(_, _)
SumTo(s, k) == IF k = 0 THEN 0 ELSE s[k] + SumTo(s, k - 1)
ChunkBytes(sr, sw, ch) == LET c == (sr * sw * ch) \div 10 IN c - (c % (sw * ch))
PlayerOK == LET cb == ChunkBytes(X.sr, X.sw, X.ch)  m == Len(X.sizes) IN
            /\ X.same_bytes /\ SumTo(X.sizes, m) = X.n
            /\ \A k \in 1..(m - 1) : X.sizes[k] = cb
            /\ (m > 0 => X.sizes[m] >= 1 /\ X.sizes[m] <= cb)
            /\ \A k \in 1..m : X.sizes[k] % (X.sw * X.ch) = 0
            /\ X.nb_chunks = m
Abs(a) == IF a < 0 THEN -a ELSE a
RoundOK(g, num, den) == 20 * Abs(2 * (IF num >= 0 THEN num % den ELSE (-num) % den) - den) >= 2 * den => g = (2 * num + den) \div (2 * den)
LoadOK == /\ X.prefix_ok /\ X.par_ok
          /\ LET r0 == (2 * X.tn * X.sr + X.td) \div (2 * X.td) IN
             \E g \in (IF r0 > 0 THEN r0 - 1 ELSE 0)..(r0 + 1) : RoundOK(g, X.tn * X.sr, X.td) /\ Abs(g * X.td - X.tn * X.sr) <= X.td /\ X.got = Min2(g, X.dev)
RECURSIVE ReadsOK(_, _)
ReadsOK(k, pos) == IF k > Len(X.reads) THEN TRUE
                   ELSE LET r == X.reads[k]  want == Min2(r.k, X.dev - pos) IN
                        IF want <= 0 THEN r.got = -1 /\ ReadsOK(k + 1, pos)                  \* None once nothing remains
                        ELSE r.got = want /\ r.first = pos /\ ReadsOK(k + 1, pos + want)
SourceOK == ReadsOK(1, 0) /\ X.closed_err
OK == IF X.op = "player" THEN PlayerOK ELSE IF X.op = "load" THEN LoadOK ELSE SourceOK
Mon == TLCSet(i, IF OK THEN 1 ELSE 2)
ASSUME \A t \in 1..Len(Cases) : TLCSet(t, 0)
Post == \A t \in 1..Len(Cases) : PrintT(ToJson(<<"TRACE", t, TLCGet(t), 1>>))
====================================================================
