---------------------------- MODULE ExportMC ----------------------------
(* Model-checking wrapper of Export: named actions with a history of (action, state after it) for the
   replay leg; converters only vary when the guessed format needs one.                               *)
EXTENDS Export, Json
VARIABLE hist
mvars == <<vars, hist>>
Snap(a) == [a |-> a, fs |-> [k \in 1..(K + 1) |-> <<fs'[k - 1].k, fs'[k - 1].t, fs'[k - 1].ids>>], tmp |-> tmp', last |-> last', calls |-> calls', exported |-> exported']
MInit == Init /\ hist = <<>> /\ (fmt \in {"wav", "raw"} => env = [t \in {"ffmpeg", "avconv", "sox"} |-> "missing"])
MOpen == Open /\ hist' = Append(hist, Snap("open"))
MWrite == Write /\ hist' = Append(hist, Snap("write"))
MFinish == Finish /\ hist' = Append(hist, Snap("finish"))
MExportWavRaw == ExportWavRaw /\ hist' = Append(hist, Snap("export"))
MExportTools == ExportTools /\ hist' = Append(hist, Snap("export"))
MExportAgain == ExportAgain /\ hist' = Append(hist, Snap("export"))
MCollect == Collect /\ hist' = Append(hist, Snap("collect"))
MNext == MOpen \/ MWrite \/ MFinish \/ MExportWavRaw \/ MExportTools \/ MExportAgain \/ MCollect
MSpec == MInit /\ [][MNext]_mvars
Bound == Len(hist) <= MaxBlocks + 6
NoClobberM == [][\A k \in 1..K : fs[k].k = "pre" => fs'[k] = fs[k]]_mvars
IdempotentM == [][exported => calls' = calls]_mvars
Dump == (ph = "collected") => PrintT(ToJson([ext |-> ext, fpar |-> fpar, env |-> env, pre |-> [k \in 1..K |-> hist[1].fs[k][1] = "pre"], fmt |-> fmt, hist |-> hist]))
=========================================================================
