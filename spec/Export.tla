---------------------------- MODULE Export ----------------------------
(* Beyond the list (X02): what happens to the FILES of a stream-saving / event-joining worker
   (auditok/workers.py:153-298, AudioDataSaverWorker and its two subclasses; cmdline.py:411-419).

   The worker is given an output name and, optionally, an export format.  The format is guessed from
   the explicit format, else from the extension, else "wav" (io.py:74-105: lower-cased, "wave" = "wav").
   While the stream runs, audio is written to a wav file: the output itself when the format is wav,
   otherwise a TEMPORARY wav next to it -- <out>.wav, <out>(1).wav, <out>(2).wav ..., the first name that
   does not exist yet.  export_audio() then produces the output: wav = nothing to do, raw = the frames of
   the temporary file, anything else = an external converter (ffmpeg, then avconv, then sox).  When the
   object is collected the temporary file is removed, but only after a successful export.

   A file system is a function from the names the worker can touch (0 = the output name, k >= 1 = the
   k-th temporary candidate) to a content record; tools are an environment: each of ffmpeg / avconv / sox
   is "ok", "fail" (non-zero exit status) or "missing" (cannot be started).

   Deviation of the code that the model names rather than hides: a MISSING ffmpeg makes
   _run_subprocess raise, which skips avconv altogether (action ToolsFfmpegMissing); a FAILING ffmpeg
   (exit status) tries avconv.  Observation O8 in DESIGN.md.                                            *)
EXTENDS Integers, Sequences, FiniteSets, TLC
CONSTANTS MaxBlocks,      \* blocks written at most
          K               \* temporary-name candidates modelled (pre-existing ones among them)
Exts == {"", "wav", "raw", "ogg", "WAV", "wave", "Raw"}
Fmts == {"none", "wav", "wave", "raw", "ogg", "RAW", "WAVE", "mp3"}
Lower(s) == CASE s = "WAV" -> "wav" [] s = "WAVE" -> "wave" [] s = "RAW" -> "raw" [] s = "Raw" -> "raw" [] OTHER -> s
Guess(ext, f) == LET g == IF f = "none" THEN (IF ext = "" THEN "none" ELSE Lower(ext)) ELSE Lower(f)
                     h == IF g = "wave" THEN "wav" ELSE g
                 IN IF h = "none" THEN "wav" ELSE h
Outcomes == {"ok", "fail", "missing"}
Tools == <<"ffmpeg", "avconv", "sox">>
Absent == [k |-> "absent", t |-> "", ids |-> <<>>]
Pre(n) == [k |-> "pre", t |-> "", ids |-> <<n>>]               \* somebody else's file, content identified by n
Wav(ids) == [k |-> "wav", t |-> "", ids |-> ids]                \* a wav container of the worker's rate/width/channels holding these blocks
Raw(ids) == [k |-> "raw", t |-> "", ids |-> ids]                \* headerless frames
Conv(tool, src) == [k |-> "conv", t |-> tool, ids |-> src.ids]  \* whatever the converter made of the wav file src

VARIABLES fs,        \* name -> content
          ext, fpar, \* the output name's extension, the explicit format parameter
          env,       \* tool -> outcome (fixed per behaviour)
          fmt, tmp,  \* guessed format; index of the file that receives the stream
          ph,        \* "new" | "open" | "closed" | "collected"
          written,   \* blocks handed to the worker so far
          exported,  \* the _exported flag
          calls,     \* tools started so far, in order
          last       \* result of the last export_audio(): "none" | "ok" | "warning"
vars == <<fs, ext, fpar, env, fmt, tmp, ph, written, exported, calls, last>>
Names == 0..K
FirstFree(f) == CHOOSE k \in 1..K : f[k] = Absent /\ \A j \in 1..(k - 1) : f[j] # Absent

Init == /\ ext \in Exts /\ fpar \in Fmts /\ env \in [{"ffmpeg", "avconv", "sox"} -> Outcomes]
        /\ \E S \in SUBSET (0..(K - 1)) : fs = [k \in Names |-> IF k \in S THEN Pre(100 + k) ELSE Absent]     \* the last candidate is free
        /\ fmt = Guess(ext, fpar) /\ tmp = -1 /\ ph = "new" /\ written = <<>> /\ exported = FALSE /\ calls = <<>> /\ last = "none"
\* constructor: the stream file is created (an existing output is truncated when the format is wav)
Open == /\ ph = "new" /\ ph' = "open"
        /\ tmp' = IF fmt = "wav" THEN 0 ELSE FirstFree(fs)
        /\ fs' = [fs EXCEPT ![tmp'] = Wav(<<>>)]
        /\ UNCHANGED <<ext, fpar, env, fmt, written, exported, calls, last>>
Write == /\ ph = "open" /\ Len(written) < MaxBlocks
         /\ written' = Append(written, Len(written) + 1)
         /\ UNCHANGED <<fs, ext, fpar, env, fmt, tmp, ph, exported, calls, last>>     \* cached or written: not observable before the end
\* the worker thread ends (stop marker, drain, close): the stream file holds everything written
Finish == /\ ph = "open" /\ ph' = "closed" /\ fs' = [fs EXCEPT ![tmp] = Wav(written)]
          /\ UNCHANGED <<ext, fpar, env, fmt, tmp, written, exported, calls, last>>
\* the converters that get started, and the one that succeeds (if any): what the CODE does
Run(e) == IF e["ffmpeg"] = "ok" THEN <<<<"ffmpeg">>, "ffmpeg">>
          ELSE IF e["ffmpeg"] = "fail"
               THEN (IF e["avconv"] = "ok" THEN <<<<"ffmpeg", "avconv">>, "avconv">>
                     ELSE IF e["avconv"] = "fail"
                          THEN (IF e["sox"] = "ok" THEN <<<<"ffmpeg", "avconv", "sox">>, "sox">> ELSE <<<<"ffmpeg", "avconv", "sox">>, "">>)
                          ELSE (IF e["sox"] = "ok" THEN <<<<"ffmpeg", "avconv", "sox">>, "sox">> ELSE <<<<"ffmpeg", "avconv", "sox">>, "">>))
               ELSE \* ffmpeg missing: avconv is never tried (deviation, O8)
                    (IF e["sox"] = "ok" THEN <<<<"ffmpeg", "sox">>, "sox">> ELSE <<<<"ffmpeg", "sox">>, "">>)
ExportWavRaw == /\ ph = "closed" /\ ~exported /\ fmt \in {"wav", "raw"}
                /\ fs' = IF fmt = "raw" THEN [fs EXCEPT ![0] = Raw(fs[tmp].ids)] ELSE fs
                /\ exported' = TRUE /\ last' = "ok" /\ UNCHANGED <<ext, fpar, env, fmt, tmp, ph, written, calls>>
ExportTools == /\ ph = "closed" /\ ~exported /\ fmt \notin {"wav", "raw"}
               /\ LET r == Run(env) IN
                  /\ calls' = calls \o r[1]
                  /\ IF r[2] # "" THEN /\ fs' = [fs EXCEPT ![0] = Conv(r[2], fs[tmp])] /\ exported' = TRUE /\ last' = "ok"
                     ELSE /\ UNCHANGED <<fs, exported>> /\ last' = "warning"              \* AudioEncodingWarning; the wav file stays
               /\ UNCHANGED <<ext, fpar, env, fmt, tmp, ph, written>>
ExportAgain == /\ ph = "closed" /\ exported /\ last' = "ok" /\ UNCHANGED <<fs, ext, fpar, env, fmt, tmp, ph, written, exported, calls>>
\* the object is collected: the temporary file goes away, but only after a successful export
Collect == /\ ph = "closed" /\ ph' = "collected"
           /\ fs' = IF tmp # 0 /\ exported THEN [fs EXCEPT ![tmp] = Absent] ELSE fs
           /\ UNCHANGED <<ext, fpar, env, fmt, tmp, written, exported, calls, last>>
Next == Open \/ Write \/ Finish \/ ExportWavRaw \/ ExportTools \/ ExportAgain \/ Collect
Spec == Init /\ [][Next]_vars

-----------------------------------------------------------------------------
(* properties *)
TypeOK == ph \in {"new", "open", "closed", "collected"} /\ tmp \in -1..K /\ last \in {"none", "ok", "warning"}
\* X02a: a file that was there before and is not the requested output is never touched
NoClobber == [][\A k \in 1..K : fs[k].k = "pre" => fs'[k] = fs[k]]_vars
\* X02b: a successful export leaves exactly the stream under the output name, in the requested format
Exact == exported => CASE fmt = "wav" -> fs[0] = Wav(written)
                       [] fmt = "raw" -> fs[0] = Raw(written)
                       [] OTHER -> fs[0].k = "conv" /\ fs[0].ids = written /\ env[fs[0].t] = "ok"
\* X02c: the recorded audio is never lost: until a successful export the stream file exists and holds everything written
KeepsAudio == (ph \in {"closed", "collected"} /\ ~exported) => fs[tmp] = Wav(written)
\* X02d: once exported, later calls start no converter
Idempotent == [][exported => calls' = calls]_vars
\* X02e: no temporary file is left behind after a successful export
Tidy == (ph = "collected" /\ exported /\ tmp # 0) => fs[tmp] = Absent
\* X02f: a warning is raised exactly when no converter produced the output
WarnIff == (last = "warning") => (~exported /\ fmt \notin {"wav", "raw"})
=============================================================================
