---------------------------- MODULE FilesMC ----------------------------
EXTENDS Files, Json
Export == (Len(log) = MaxOps) => PrintT(ToJson([n |-> Len(regs[1].ids), log |-> log]))
=========================================================================
