---------------------------- MODULE WorkersLog ----------------------------
(* X03 (beyond the list): Workers with the processing log as a history variable.  The log is written by the threads
   themselves between two scheduling points, so its order is the order of the actions: the tokenizer logs a detection in
   the step that produces it (before the first observer is notified), an observer logs in the step that takes the message.
   log is derived from the change of out / processed; no action of Workers is touched.                                   *)
EXTENDS WorkersMC
VARIABLE log
lvars == <<vars, log>>
Changed == {o \in 1..MaxObs : processed'[o] # processed[o]}
LInit == Init /\ log = <<>>
LNext == /\ Next
         /\ log' = IF Len(out') > Len(out) THEN Append(log, <<0, Len(out')>>)
                   ELSE IF Changed # {} THEN LET o == CHOOSE x \in Changed : TRUE IN Append(log, <<o, processed'[o][Len(processed'[o])]>>)
                   ELSE log
LSpec == LInit /\ [][LNext]_lvars
X03Safe == LogOK(log, Len(out), processed, Obs)
=============================================================================
