---------------------------- MODULE DurationsMC ----------------------------
(* The integer formulas of Durations against the wording of the property, for every duration d and
   window w of the bound: MinLen is the smallest count whose duration covers d, MaxLen / MaxSil the
   largest count not exceeding d; the accept / reject table.                                       *)
EXTENDS Durations, TLC
CONSTANTS MaxW, MaxK
VARIABLES d, w, d2, d3
Init == w \in 1..MaxW /\ d \in 1..MaxK /\ d2 \in 1..MaxK /\ d3 \in 0..(MaxK \div 2)
Next == UNCHANGED <<d, w, d2, d3>>
Spec == Init /\ [][Next]_<<d, w, d2, d3>>
\* (the window is w units, i.e. wn = w, wd = U)
Covers(c, x) == c * w >= x
DurOK == /\ Covers(MinLen(d, w, U), d) /\ ~Covers(MinLen(d, w, U) - 1, d)
         /\ MaxLen(d, w, U) * w <= d /\ (MaxLen(d, w, U) + 1) * w > d
         /\ (d % w = 0 => MinLen(d, w, U) = d \div w /\ MaxLen(d, w, U) = d \div w)       \* "0.07 / 0.01 means exactly 7"
         /\ (Reject(d, d2, d3, w, U, 16000, FALSE) <=>
               \/ MinLen(d, w, U) > MaxLen(d2, w, U) \/ MaxSil(d3, w, U) >= MaxLen(d2, w, U) \/ BlockSize(w, 16000) = 0)
         \* an accepted combination always yields a tuple the tokenizer constructor accepts
         /\ (~Reject(d, d2, d3, w, U, 16000, FALSE) =>
               /\ MinLen(d, w, U) >= 1 /\ MinLen(d, w, U) <= MaxLen(d2, w, U) /\ MaxSil(d3, w, U) < MaxLen(d2, w, U))
=============================================================================
