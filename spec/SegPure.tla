---------------------------- MODULE SegPure ----------------------------
(* The declarative greedy segmentation of C04 as a pure function of (parameters q, validity stream s):
   the same text as TokenizerProps!Seg, parameterised so that modules whose stream / parameters live in
   other variables (Workers, WorkersObs) can use it.  Tokenizer checks SegOf(p, stream) = Seg(0).        *)
EXTENDS Naturals, Integers, Sequences, FiniteSets
LOCAL PMin2(a, b) == IF a < b THEN a ELSE b
LOCAL PSetMax(S) == CHOOSE x \in S : \A y \in S : y <= x
LOCAL PSetMin(S) == CHOOSE x \in S : \A y \in S : x <= y
LOCAL V(s, k) == s[k + 1]
RECURSIVE PStretchEnd(_, _, _)
PStretchEnd(q, s, e) == LET nxt == {k \in (e+1)..PMin2(e + q.sil + 1, Len(s) - 1) : V(s, k)} IN
                        IF nxt = {} THEN e ELSE PStretchEnd(q, s, PSetMax(nxt))
PPieceTok(q, s, a0, x, j) == LET a == a0 + j * q.max  b == PMin2(a + q.max - 1, x)  vs == {k \in a..b : V(s, k)} IN
   IF b - a + 1 = q.max THEN <<[start |-> a, end |-> b]>> ELSE IF vs = {} THEN <<>>
   ELSE LET b2 == IF q.drop THEN PSetMax(vs) ELSE b IN
        IF (b2 - a + 1 >= q.min) \/ (~q.strict /\ j > 0) THEN <<[start |-> a, end |-> b2]>> ELSE <<>>
RECURSIVE PPieces(_, _, _, _, _)
PPieces(q, s, a0, x, j) == IF a0 + j * q.max > x THEN <<>> ELSE PPieceTok(q, s, a0, x, j) \o PPieces(q, s, a0, x, j + 1)
RECURSIVE PFirstValid(_, _)
PFirstValid(s, i) == IF i >= Len(s) THEN Len(s) ELSE IF V(s, i) THEN i ELSE PFirstValid(s, i + 1)
RECURSIVE PSeg(_, _, _)
PSeg(q, s, i) == LET a0 == PFirstValid(s, i) IN IF a0 >= Len(s) THEN <<>>
                 ELSE LET e == PStretchEnd(q, s, a0)  x == PMin2(e + q.sil, Len(s) - 1) IN
                      PPieces(q, s, a0, x, 0) \o PSeg(q, s, x + 1)
SegOf(q, s) == PSeg(q, s, 0)
=========================================================================
