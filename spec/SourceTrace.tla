---------------------------- MODULE SourceTrace ----------------------------
(* Trace specification for audio sources: every logged call (operation, argument, projected result)
   must be the Source action of that name with exactly that result.  C11 is an exact characterisation
   of read / position behaviour, so a rejected trace is a violation; the row reports the first event
   that no action explains and whether the C11 monitor failed.                                      *)
EXTENDS Source, Json, IOUtils, TLCExt
Traces == JsonDeserialize(IOEnv.TRACE_FILE)
VARIABLES tid, l
tvars == <<vars, tid, l>>
Ev == Traces[tid].ev
TInit == /\ tid \in 1..Len(Traces) /\ l = 1 /\ kind = Traces[tid].kind /\ n = Traces[tid].n /\ sr = Traces[tid].sr
         /\ isopen = FALSE /\ pos = 0 /\ prev = [isopen |-> FALSE, pos |-> 0] /\ last = R("new", 0, "ok", <<>>, 0)
E == Ev[l]
Act == \/ E.op = "open" /\ Open
       \/ E.op = "close" /\ Close
       \/ E.op = "read" /\ Read(E.arg)
       \/ E.op = "getpos" /\ GetPos
       \/ E.op = "setpos" /\ SetPos(E.arg)
       \/ E.op = "getms" /\ GetMs
       \/ E.op = "setms" /\ SetMs(E.arg)
       \/ E.op = "gets" /\ GetS
       \/ E.op = "sets" /\ SetS(E.arg)
       \/ E.op = "rewind" /\ Rewind
Match == /\ last'.k = E.k /\ last'.ids = E.ids
         /\ (E.k = "val" => last'.v = E.v)
         /\ (E.k = "rat" => E.v[1] * sr = last'.v * E.v[2])          \* logged num/den equals pos / sr
\* a read of more than a million samples: the event carries the first id, the count and whether the bytes matched, not the ids
BigRead == E.op = "bigread" /\ Read(E.arg) /\ last'.k = E.k /\ Len(last'.ids) = E.len /\ (E.len > 0 => last'.ids[1] = E.first) /\ E.match
Step == l <= Len(Ev) /\ l' = l + 1 /\ tid' = tid /\ ((Act /\ Match) \/ BigRead)
TSpec == TInit /\ [][Step]_tvars
Mon == (~C11 => TLCSet(100000 + tid, 1)) /\ TLCSet(tid, l)
ASSUME \A t \in 1..Len(Traces) : \A b \in {0, 100000} : TLCSet(b + t, 0)
Post == \A t \in 1..Len(Traces) : PrintT(ToJson(<<"TRACE", t, TLCGet(t), Len(Traces[t].ev) + 1, TLCGet(100000 + t)>>))
=============================================================================
