---------------------------- MODULE TokenizerObsTrace ----------------------------
(* FREE observation trace specification: the observation variables of TokenizerProps are updated from
   the logged events and from nothing else -- no automaton, no expectation.  TLC therefore evaluates
   C01..C08 on what the code was observed to do.  One JVM judges a whole batch of traces: Init ranges
   over the trace ids, monitors set per-trace registers instead of stopping, the POSTCONDITION prints
   one JSON verdict line per trace.  Run with -workers 1 (registers are per worker).

   Events: {e:"R", v}  source handed out a frame of validity v        {e:"V", v} validator called
           {e:"EOS"}   source answered an end-of-stream request        {e:"END"}  run over
           {e:"T", s, t, fr:[frame indices]}  token reached the consumer   {e:"EXC", cls} the run raised
   Trace record: [p, mode ("gen"|"cb"|"list"), peer (tokens of the same input in generator mode), ev] *)
EXTENDS TokenizerProps, Json, IOUtils, TLCExt
Traces == JsonDeserialize(IOEnv.TRACE_FILE)
VARIABLES tid, l, chk
tvars == <<obsvars, tid, l, chk>>
Ev == Traces[tid].ev
TInit == /\ tid \in 1..Len(Traces) /\ l = 1 /\ chk = FALSE /\ p = Traces[tid].p
         /\ stream = <<>> /\ out = <<>> /\ nread = 0 /\ eos = 0 /\ late = 0 /\ done = FALSE
Is(e) == l <= Len(Ev) /\ Ev[l].e = e /\ l' = l + 1 /\ UNCHANGED <<tid, p>>
OR == Is("R") /\ nread' = nread + 1 /\ stream' = Append(stream, Ev[l].v) /\ late' = (IF eos > 0 THEN late + 1 ELSE late)
      /\ chk' = FALSE /\ UNCHANGED <<out, eos, done>>
OV == Is("V") /\ chk' = FALSE /\ UNCHANGED <<stream, out, nread, eos, late, done>>
\* fv (when logged): validity of every frame of the DELIVERED data, judged on the frame objects themselves
OT == Is("T") /\ out' = Append(out, [frames |-> Ev[l].fr, start |-> Ev[l].s, end |-> Ev[l].t, at |-> nread + eos - 1, fl |-> eos,
                                     fv |-> IF "fv" \in DOMAIN Ev[l] THEN Ev[l].fv ELSE <<>>])
      /\ chk' = TRUE /\ UNCHANGED <<stream, nread, eos, late, done>>
OEOS == Is("EOS") /\ eos' = eos + 1 /\ chk' = FALSE /\ UNCHANGED <<stream, out, nread, late, done>>
OEXC == Is("EXC") /\ TLCSet(700000 + tid, 1) /\ chk' = FALSE /\ UNCHANGED <<stream, out, nread, eos, late, done>>   \* the run raised
OEND == Is("END") /\ done' = TRUE /\ chk' = TRUE /\ UNCHANGED <<stream, out, nread, eos, late>>
TNext == OR \/ OV \/ OT \/ OEOS \/ OEND \/ OEXC
TSpec == TInit /\ [][TNext]_tvars
Online == Traces[tid].mode # "list"      \* list mode hands everything over after the end: C08's timing clause is void there
PeerOK == done => OutSE = [i \in 1..Len(Traces[tid].peer) |-> [start |-> Traces[tid].peer[i][1], end |-> Traces[tid].peer[i][2]]]
C08Obs == (Online => C08) /\ PeerOK /\ eos <= 1 /\ late = 0
\* the monitors, evaluated right after every hand-over and at the end (chk); each failure is recorded per trace
Bad(b, ok) == ok \/ TLCSet(b + tid, 1)
\* Tokens are never changed once handed over, so each per-token formula (the very conjuncts of C01..C08) is evaluated once, when
\* its token arrives; the statements about the whole run (C04, the C08 clauses on end-of-stream, peers) when the run is over.
Last == Len(out)
TokOK(F(_)) == Last = 0 \/ F(Last)
\* C03 on the delivered data itself (no reference to positions, so it does not presuppose C01): a token's content has a valid frame,
\* begins with one unless the token continues a cut one, ends with one when trailing silence is dropped and it was not cut, and holds
\* no run of more than MaxRun invalid frames
C03Data(i) == LET fv == out[i].fv  n == Len(fv) IN
              n = 0 \/ (/\ \E k \in 1..n : fv[k]
                        /\ (~IsCont(i) => fv[1])
                        /\ (p.drop /\ n < p.max => fv[n])
                        /\ \A a \in 1..n : ~(a - MaxRun >= 1 /\ \A k \in (a - MaxRun)..a : ~fv[k]))
C08Run == eos <= 1 /\ late = 0 /\ (done => eos = 1 /\ (Online => \A k \in 1..Last : out[k].fl = 1 => k = Last)) /\ PeerOK
Mon == /\ (chk => /\ Bad(100000, TokOK(C01Tok)) /\ Bad(200000, TokOK(C02Tok))
                  /\ Bad(300000, TokOK(C03Data) /\ ((TLCGet(100000 + tid) = 0) => TokOK(C03Tok)))   \* the positional form presupposes exact slices (C01)
                  /\ Bad(500000, (Online => TokOK(C08Tok)) /\ C08Run)
                  /\ (done => /\ Bad(400000, C04)
                              /\ Bad(600000, (TLCGet(100000 + tid) = 0) => (C04Cover /\ C04First /\ C04NoInvent))))
       /\ TLCSet(tid, l)
Bases == {0, 100000, 200000, 300000, 400000, 500000, 600000, 700000}
ASSUME \A t \in 1..Len(Traces) : \A b \in Bases : TLCSet(b + t, 0)
Post == \A t \in 1..Len(Traces) :
   PrintT(ToJson(<<"TRACE", t, TLCGet(t), Len(Traces[t].ev) + 1, TLCGet(100000+t), TLCGet(200000+t), TLCGet(300000+t),
                   TLCGet(400000+t), TLCGet(500000+t), TLCGet(600000+t), TLCGet(700000+t)>>))
=============================================================================
