---------------------------- MODULE ReaderTrace ----------------------------
(* Trace specification for AudioReader: each logged call (read / rewind / data, with the projected
   return value) must be the corresponding Reader action with exactly that result.  C10 is an exact
   characterisation, so a rejected trace IS a violation: the verdict line gives the first event that
   no action explains.  Batched over traces as in TokenizerObsTrace.                                 *)
EXTENDS Reader, Json, IOUtils, TLCExt
Traces == JsonDeserialize(IOEnv.TRACE_FILE)
VARIABLES tid, l
tvars == <<vars, tid, l>>
Ev == Traces[tid].ev
TInit == /\ tid \in 1..Len(Traces) /\ l = 1 /\ c = Traces[tid].c
         /\ spos = 0 /\ cache = <<>> /\ frozen = FALSE /\ data = <<>> /\ rpos = 0
         /\ lcount = 0 /\ ph = "init" /\ ocache = <<>> /\ hist = <<>> /\ log = <<>> /\ opened = FALSE
Same(e, x) == e.op = x.op /\ e.k = x.k /\ e.ids = x.ids
Step == /\ l <= Len(Ev) /\ l' = l + 1 /\ tid' = tid
        /\ (ReadClosed \/ Open \/ Close \/ ReadFixed \/ ReadOvInit \/ ReadOvRun \/ ReadOvDead \/ ReadOvBroken \/ Rewind \/ RewindNoRec \/ Data)
        /\ Same(Ev[l], log'[Len(log')])
TSpec == TInit /\ [][Step]_tvars
\* very long histories (thousands of reads) are judged by acceptance alone: the monitors re-evaluate the whole history in every state
Mon == /\ Traces[tid].nomon \/ ((~C10 => TLCSet(100000 + tid, 1)) /\ (~(C19 /\ C19Replay) => TLCSet(200000 + tid, 1)))
       /\ TLCSet(tid, l)
ASSUME \A t \in 1..Len(Traces) : \A b \in {0, 100000, 200000} : TLCSet(b + t, 0)
Post == \A t \in 1..Len(Traces) :
   PrintT(ToJson(<<"TRACE", t, TLCGet(t), Len(Traces[t].ev) + 1, TLCGet(100000 + t), TLCGet(200000 + t)>>))
=============================================================================
