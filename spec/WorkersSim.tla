---------------------------- MODULE WorkersSim ----------------------------
(* Behaviour export for leg R: in simulation mode, every behaviour that reaches the terminal state is printed
   as the sequence of its states projected on the program counters (from which the harness recovers which
   thread moved at each step) together with the input stream and the configuration.                     *)
EXTENDS WorkersMC, Json, TLCExt
DoneIn(s) == s.mpc = "done" /\ s.tpc = "done" /\ (\A o \in 1..s.p.nobs : s.opc[o] = "done") /\ (s.p.saver => s.spc = "done")
Proj(s) == [fin |-> s.finished, m |-> s.mpc, mi |-> s.midx, t |-> s.tpc, ni |-> s.nidx, c |-> s.cur, o |-> s.opc,
            pr |-> [k \in 1..MaxObs |-> Len(s.processed[k])], ib |-> [k \in 1..MaxObs |-> Len(s.inbox[ON(k)])],
            s |-> s.spc, sb |-> Len(s.inbox["saver"]), tb |-> Len(s.inbox["tok"]), ca |-> Len(s.cache), f |-> Len(s.file)]
\* print a behaviour once: register 42 remembers the number of the simulated trace that was printed last
ASSUME TLCSet(42, -1)
TraceNo == TLCGet("stats").traces
Export == (AllDone /\ TLCGet(42) # TraceNo) => (TLCSet(42, TraceNo) /\ PrintT(ToJson([p |-> p, stream |-> stream, out |-> out, processed |-> processed, file |-> file,
                                    steps |-> [k \in 1..Len(Trace) |-> Proj(Trace[k])]])))
=============================================================================
