---------------------------- MODULE Source ----------------------------
(* Audio sources (auditok/io.py:316-645): BufferAudioSource, RawAudioSource, WaveAudioSource,
   StdinAudioSource as one state machine over sample ids 1..n.  State: open flag and cursor (samples
   consumed / buffer position).  Each action is one public call; `last` holds the call and the value
   the specification says it returns, `prev` the state it was made in (so that every distinct state of
   this module is one *transition* of the abstract machine, exported for leg R).
   Result kinds: "blk" (ids), "none", "ok", "val" (integer in v), "rat" (v = <<num, den>> samples/rate),
   "AudioIOError", "IndexError".                                                                    *)
EXTENDS Naturals, Integers, Sequences, FiniteSets, TLC
CONSTANTS MaxN, RateSet, KindSet
None == -9999                      \* stands for Python's None as a read size
\* values offered to the setters (defined here because cfg files cannot hold negative numbers)
PosArgs == (-(MaxN + 2))..(MaxN + 2)
MsArgs  == {-1000, -500, -250, -125, -100, 0, 1, 99, 100, 101, 125, 200, 250, 300, 375, 500, 1000}
SArgs   == {-8, -4, -2, -1, 0, 1, 2, 3, 4, 6, 8, 16}        \* eighths of a second (dyadic: float product exact)
ReadArgs == (1..(MaxN + 1)) \cup {-1, None}

VARIABLES kind, n, sr, isopen, pos, prev, last
vars == <<kind, n, sr, isopen, pos, prev, last>>

Ids(a, b) == [i \in 1..(b - a) |-> a + i]
Min2(a, b) == IF a < b THEN a ELSE b
TruncDiv(a, b) == IF a >= 0 THEN a \div b ELSE -((-a) \div b)     \* Python int(a / b) for b > 0
R(op, arg, k, ids, v) == [op |-> op, arg |-> arg, k |-> k, ids |-> ids, v |-> v]
Snap == [isopen |-> isopen, pos |-> pos]

Init == /\ kind \in KindSet /\ n \in 0..MaxN /\ sr \in RateSet /\ isopen = FALSE /\ pos = 0
        /\ prev = [isopen |-> FALSE, pos |-> 0] /\ last = R("new", 0, "ok", <<>>, 0)
Frame == prev' = Snap /\ UNCHANGED <<kind, n, sr>>

\* open(): file kinds get a fresh handle (cursor 0) unless already open; buffer / stdin only set the flag
Open == /\ isopen' = TRUE /\ pos' = (IF kind \in {"raw", "wav"} /\ ~isopen THEN 0 ELSE pos)
        /\ last' = R("open", 0, "ok", <<>>, 0) /\ Frame
\* close(): buffer rewinds (io.py:355-357); file handles are dropped; stdin keeps its place in the pipe
Close == /\ isopen' = FALSE /\ pos' = (IF kind = "stdin" THEN pos ELSE 0)
         /\ last' = R("close", 0, "ok", <<>>, 0) /\ Frame
\* read(k): successive whole-sample chunks, then None; never an empty block; error when not open
Chunk(k) == IF k = None \/ k < 0 THEN Ids(pos, n) ELSE Ids(pos, Min2(pos + k, n))
Read(k) == /\ (kind = "stdin" => k > 0)            \* the statement defines negative / None sizes for buffer and file sources only
           /\ IF ~isopen THEN /\ last' = R("read", k, "AudioIOError", <<>>, 0) /\ UNCHANGED <<isopen, pos>>
              ELSE LET c == Chunk(k) IN
                   /\ last' = R("read", k, IF c = <<>> THEN "none" ELSE "blk", c, 0)
                   /\ pos' = pos + Len(c) /\ UNCHANGED isopen
           /\ Frame
\* ---- buffer source only: position in samples / seconds / milliseconds, rewind
IsBuf == kind = "buffer"
GetPos == /\ IsBuf /\ last' = R("getpos", 0, "val", <<>>, pos) /\ UNCHANGED <<isopen, pos>> /\ Frame
SetTo(op, arg, k) ==           \* common tail of the three setters: k samples, negative counts from the end
   LET k2 == IF k < 0 THEN k + n ELSE k IN
   IF k2 < 0 \/ k2 > n THEN /\ last' = R(op, arg, "IndexError", <<>>, 0) /\ UNCHANGED <<isopen, pos>>
   ELSE /\ last' = R(op, arg, "ok", <<>>, 0) /\ pos' = k2 /\ UNCHANGED isopen
SetPos(k) == IsBuf /\ SetTo("setpos", k, k) /\ Frame
GetMs == /\ IsBuf /\ last' = R("getms", 0, "val", <<>>, (pos * 1000) \div sr) /\ UNCHANGED <<isopen, pos>> /\ Frame
\* sub-sample negative instants (which truncate to 0) are not offered: the statement does not say where they land
SetMs(ms) == /\ IsBuf /\ (ms < 0 => TruncDiv(sr * ms, 1000) < 0)
             /\ SetTo("setms", ms, TruncDiv(sr * ms, 1000)) /\ Frame
GetS == /\ IsBuf /\ last' = R("gets", 0, "rat", <<>>, pos) /\ UNCHANGED <<isopen, pos>> /\ Frame     \* value = pos / sr
SetS(e) == /\ IsBuf /\ (e < 0 => TruncDiv(sr * e, 8) < 0)
           /\ SetTo("sets", e, TruncDiv(sr * e, 8)) /\ Frame
Rewind == /\ IsBuf /\ pos' = 0 /\ last' = R("rewind", 0, "ok", <<>>, 0) /\ UNCHANGED isopen /\ Frame

Next == Open \/ Close \/ (\E k \in ReadArgs : Read(k)) \/ GetPos \/ (\E k \in PosArgs : SetPos(k)) \/ GetMs
        \/ (\E m \in MsArgs : SetMs(m)) \/ GetS \/ (\E e \in SArgs : SetS(e)) \/ Rewind
Spec == Init /\ [][Next]_vars

(* C11 as statements about a single call made in state prev *)
TypeOK == pos \in 0..n /\ isopen \in BOOLEAN
C11 == /\ (last.op = "read" /\ ~prev.isopen => last.k = "AudioIOError")
       /\ (last.op = "read" /\ prev.isopen =>
             LET rem == n - prev.pos
                 want == IF last.arg = None \/ last.arg < 0 THEN rem ELSE Min2(last.arg, rem) IN
             /\ (rem = 0 <=> last.k = "none")                                   \* None exactly when nothing remains
             /\ (last.k = "blk" => Len(last.ids) = want /\ want > 0             \* exactly min(n, remaining) samples, never empty
                                   /\ last.ids = Ids(prev.pos, prev.pos + want) \* the next samples, in order
                                   /\ pos = prev.pos + want))
       /\ (last.op = "getpos" => last.v = prev.pos)
       /\ (last.op \in {"rewind", "close"} /\ kind = "buffer" => pos = 0)
       /\ (last.op \in {"setpos", "setms", "sets"} => (last.k = "ok" /\ pos \in 0..n) \/ (last.k = "IndexError" /\ pos = prev.pos))
       /\ (last.op = "setpos" /\ last.k = "ok" => pos = (IF last.arg < 0 THEN last.arg + n ELSE last.arg))
       /\ (last.op = "setpos" => (last.k = "IndexError" <=> (last.arg > n \/ last.arg < -n)))
=======================================================================
