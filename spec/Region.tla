---------------------------- MODULE Region ----------------------------
(* AudioRegion (core.py:534-598, 628-674, 973-1140) over sequences of sample ids: slicing by samples,
   seconds and milliseconds; concatenation, repetition, division, join, silence, equality.  Each operator
   is given twice where the code's route differs from the statement's wording: implementation-shaped
   (byte offsets with the unnormalised stop, the division loop) and declarative (Python slicing on
   samples, "min(n,len) pieces whose lengths differ by at most one").  RegionMC checks them equal over
   the bound; RegionTrace binds observed calls to them.                                             *)
EXTENDS Naturals, Integers, Sequences, FiniteSets, TLC
None == -9999                                  \* Python's None as a slice bound
Min2(a, b) == IF a < b THEN a ELSE b
Max2(a, b) == IF a > b THEN a ELSE b
Abs(a) == IF a < 0 THEN -a ELSE a
Ids(a, b) == [i \in 1..(b - a) |-> a + i]       \* sample ids a+1 .. b
\* ---- declarative: Python slice semantics on a sequence of n samples -> <<lo, hi>>, 0-based half-open
Norm(x, n, dflt) == IF x = None THEN dflt ELSE IF x < 0 THEN Max2(x + n, 0) ELSE Min2(x, n)
PySlice(n, a, b) == LET lo == Norm(a, n, 0)  hi == Norm(b, n, n) IN <<lo, Max2(lo, hi)>>
\* ---- implementation-shaped: __getitem__ computes byte offsets; the *unnormalised* stop is multiplied
ImplSlice(n, bps, a, b) ==
  LET start0 == IF a = None THEN 0 ELSE a
      start1 == IF start0 < 0 THEN Max2(start0 + n, 0) ELSE start0
      onset  == start1 * bps
      offset == IF b = None THEN None ELSE b * bps
  IN PySlice(n * bps, onset, offset)            \* bytes.__getitem__ is Python slicing on bytes
SliceAgree(n, bps, a, b) ==
  LET r == ImplSlice(n, bps, a, b)  s == PySlice(n, a, b) IN
  /\ r[1] % bps = 0 /\ r[2] % bps = 0                      \* whole samples
  /\ (r[2] - r[1]) = (s[2] - s[1]) * bps
  /\ (s[2] > s[1] => r[1] = s[1] * bps)
\* ---- seconds view: instant t = num/den seconds at rate sr; x = t * sr samples, X = num*sr over D = den.
\* start: truncation toward zero, stop: nearest; required whenever x is at least 1/20 sample away from the
\* point where the candidates switch, otherwise any index within one sample period of x is accepted.
TruncDiv(a, b) == IF a >= 0 THEN a \div b ELSE -((-a) \div b)
RoundDiv(a, b) == IF a >= 0 THEN (2 * a + b) \div (2 * b) ELSE -((2 * (-a) + b) \div (2 * b))     \* half away from zero (ties are in the band anyway)
Rem(a, b) == Abs(a) % b
NearOK(g, X, D) == Abs(g * D - X) <= D
StartOK(g, X, D) == IF 20 * Rem(X, D) >= D /\ 20 * Rem(X, D) <= 19 * D THEN g = TruncDiv(X, D) ELSE NearOK(g, X, D)
StopOK(g, X, D) == IF 20 * Abs(2 * Rem(X, D) - D) >= 2 * D THEN g = RoundDiv(X, D) ELSE NearOK(g, X, D)
\* the view returns region[start:stop] for SOME admissible start / stop (bounded nondeterminism of the float product)
SecSliceOK(n, sr, an, ad, bn, bd, lo, hi) ==
  \E ga \in (TruncDiv(an * sr, ad) - 1)..(TruncDiv(an * sr, ad) + 1) :
    /\ StartOK(ga, an * sr, ad)
    /\ IF bn = None THEN PySlice(n, ga, None) = <<lo, hi>>
       ELSE \E gb \in (TruncDiv(bn * sr, bd) - 1)..(TruncDiv(bn * sr, bd) + 2) :
              StopOK(gb, bn * sr, bd) /\ PySlice(n, ga, gb) = <<lo, hi>>
\* ---- division: the loop of __truediv__ (implementation-shaped) and the statement (declarative)
RECURSIVE DivLoop(_, _, _, _)
DivLoop(n, q, rest, onset) == IF onset >= n THEN <<>>
                              ELSE LET off == onset + q + (IF rest > 0 THEN 1 ELSE 0) IN
                                   <<PySlice(n, onset, off)>> \o DivLoop(n, q, IF rest > 0 THEN rest - 1 ELSE 0, PySlice(n, onset, off)[2])
DivImpl(n, k) == DivLoop(n, n \div k, n % k, 0)
DivLens(n, k) == LET q == n \div k  r == n % k  m == Min2(k, n) IN [i \in 1..m |-> IF i <= r THEN q + 1 ELSE q]
RECURSIVE SumSeq(_)
SumSeq(s) == IF s = <<>> THEN 0 ELSE Head(s) + SumSeq(Tail(s))
DivAgree(n, k) == LET d == DivImpl(n, k)  w == DivLens(n, k) IN
   /\ Len(d) = Min2(k, n) /\ Len(d) = Len(w)
   /\ \A i \in 1..Len(d) : d[i][2] - d[i][1] = w[i] /\ d[i][2] - d[i][1] >= 1
   /\ d[1][1] = 0 /\ d[Len(d)][2] = n /\ \A i \in 1..(Len(d) - 1) : d[i][2] = d[i+1][1]        \* contiguous: the sum is the original
   /\ \A i, j \in 1..Len(w) : w[i] - w[j] \in {-1, 0, 1}
   /\ SumSeq(w) = n
\* ---- silence: round(d * rate) zero samples, same band rule at the half-sample switch point
SilenceOK(g, dn, dd, sr) == g >= 0 /\ StopOK(g, dn * sr, dd)
\* when duration and product are exactly representable (dyadic duration) nothing is ambiguous: round() is Python's, half to even
HalfEvenDiv(X, D) == LET q == X \div D  r == X % D IN IF 2 * r < D THEN q ELSE IF 2 * r > D THEN q + 1 ELSE IF q % 2 = 0 THEN q ELSE q + 1
SilenceExactOK(g, dn, dd, sr) == g = HalfEvenDiv(dn * sr, dd)
\* ---- concatenation / join / repetition on id sequences (bytes are id sequences here)
RECURSIVE JoinSeq(_, _)
JoinSeq(sep, rs) == IF rs = <<>> THEN <<>> ELSE IF Len(rs) = 1 THEN rs[1] ELSE rs[1] \o sep \o JoinSeq(sep, Tail(rs))
RECURSIVE Rep(_, _)
Rep(s, k) == IF k <= 0 THEN <<>> ELSE s \o Rep(s, k - 1)
SameParams(p1, p2) == p1 = p2            \* <<rate, width, channels>>
=======================================================================
