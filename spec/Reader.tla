---------------------------- MODULE Reader ----------------------------
(* auditok.util.AudioReader: the wrapper stack  source -> [_Recorder] -> [_Limiter] -> _FixedSizeAudioReader
   | _OverlapAudioReader  (util.py:366-755), composition order as in AudioReader.__init__.
   Audio is a sequence of sample ids 1..n (the harness gives every sample a unique byte pattern).
   A configuration c = [n, b, h, lim, rec]: source length, block size and hop size in samples
   (h = b: no overlap), visible limit in samples (-1: no max_read), recording on/off.
   Implementation-shaped side: limiter counter, recorder cache / frozen data / replay cursor, the three
   phases of the overlap generator.  Declarative side: the closed form of the property statement.
   C10 = the two agree on every value returned; C19 = recorder invariants.                          *)
EXTENDS Naturals, Integers, Sequences, FiniteSets, TLC
CONSTANTS MaxN, MaxB, MaxOps, FixD3    \* FixD3 = TRUE: repaired overlap generator (None forever after an empty first block)

Cfgs == { [n |-> n, b |-> b, h |-> h, lim |-> lm, rec |-> r] :
            n \in 0..MaxN, b \in 1..MaxB, h \in 1..MaxB, lm \in -1..(MaxN + 1), r \in BOOLEAN }
\* construction: block of at least one sample and hop <= block (anything else is rejected with an error)
Constructible(b, h) == b >= 1 /\ h <= b

VARIABLES c,        \* configuration
          spos,     \* samples consumed from the underlying source
          cache,    \* recorder: ids recorded so far (before the first rewind)
          frozen,   \* recorder switched to in-memory replay
          data,     \* recorder: frozen data
          rpos,     \* position in data while replaying
          lcount,   \* limiter: samples handed out since the last rewind
          ph,       \* overlap generator phase: "init" | "run" | "dead" | "broken" (un-repaired D3: generator raised)
          ocache,   \* overlap cache (tail of the previous block)
          hist,     \* values returned since the last rewind: sequence of blocks, <<>> stands for None
          log,      \* every operation with its result, in order (what legs R/T compare)
          opened    \* the reader has been opened (reads before that raise an I/O error and leave no trace in any state)
vars == <<c, spos, cache, frozen, data, rpos, lcount, ph, ocache, hist, log, opened>>

Ids(a, b) == [i \in 1..(b - a) |-> a + i]          \* ids a+1 .. b
Min2(a, b) == IF a < b THEN a ELSE b
Drop(s, k) == IF k >= Len(s) THEN <<>> ELSE SubSeq(s, k + 1, Len(s))
\* log entries: operation, kind of result, ids returned, and cl = the reader was CLOSED when the call was made
Ent(op, k, ids) == [op |-> op, k |-> k, ids |-> ids, cl |-> ~opened]
Blk(ids) == Ent("read", IF ids = <<>> THEN "none" ELSE "blk", ids)
Err(op, e) == Ent(op, e, <<>>)

Init == /\ c \in {x \in Cfgs : Constructible(x.b, x.h)}
        /\ spos = 0 /\ cache = <<>> /\ frozen = FALSE /\ data = <<>> /\ rpos = 0
        /\ lcount = 0 /\ ph = "init" /\ ocache = <<>> /\ hist = <<>> /\ log = <<>> /\ opened \in BOOLEAN

\* ---- layer 1: (recorded) source read of k >= 1 samples; returns [blk, spos, cache, rpos]
SrcRead(k) ==
  IF frozen
  THEN LET e == Min2(rpos + k, Len(data)) IN
       [blk |-> SubSeq(data, rpos + 1, e), spos |-> spos, cache |-> cache, rpos |-> e]
  ELSE LET e == Min2(spos + k, c.n) IN
       [blk |-> Ids(spos, e), spos |-> e,
        cache |-> IF c.rec THEN cache \o Ids(spos, e) ELSE cache, rpos |-> rpos]
NoRead == [blk |-> <<>>, spos |-> spos, cache |-> cache, rpos |-> rpos]
\* ---- layer 2: limiter (util.py:480-488)
LimRead(k) ==
  IF c.lim < 0 THEN SrcRead(k)
  ELSE LET k2 == Min2(c.lim - lcount, k) IN IF k2 <= 0 THEN NoRead ELSE SrcRead(k2)

Apply(r, blk, newph, newoc) ==
  /\ spos' = r.spos /\ cache' = r.cache /\ rpos' = r.rpos
  /\ lcount' = lcount + Len(r.blk)
  /\ hist' = Append(hist, blk) /\ ph' = newph /\ ocache' = newoc
  /\ log' = Append(log, Blk(blk)) /\ UNCHANGED <<c, frozen, data, opened>>

\* ---- layer 3: framing (util.py:517-518, 551-580)
CanOp == Len(log) < MaxOps /\ opened
HasClose == \E i \in 1..Len(log) : log[i].op = "close"
JustRewound == Len(log) > 0 /\ log[Len(log)].op = "rewind"
\* a reader that has not been opened yet: read() raises an I/O error, any number of times, and nothing else happens;
\* open() then makes it a reader on which nothing has been read
\* (with max_read = 0 nothing is visible anyway: the limiter may answer None before the closed source is even asked --
\* the statement does not choose between the two, so both are behaviours)
ReadClosed == /\ ~opened /\ Len(log) < MaxOps
              /\ \/ log' = Append(log, Err("read", "AudioIOError"))
                 \/ c.lim = 0 /\ log' = Append(log, Blk(<<>>))
                 \* after close(): an exhausted limiter answers None without asking the closed source; an overlap generator that was killed
                 \* by the I/O error answers None from then on (until the rewind builds a new one)
                 \* (a hop of the same size in samples as the block but shorter in seconds also selects the overlap generator: no condition on c)
                 \/ HasClose /\ log' = Append(log, Blk(<<>>))
              /\ UNCHANGED <<c, spos, cache, frozen, data, rpos, lcount, ph, ocache, hist, opened>>
\* close() on a recording reader (util.py:389-390): the source is closed, reads raise as before open(); what has been recorded stays, and the
\* next rewind() exposes it -- the first rewind re-opens the reader on the recording (util.py:434-445), a later one leaves it closed until
\* open().  Re-opening a closed recorder WITHOUT a rewind in between (the source starts over, or not, depending on its kind) is outside C19.
Open == /\ ~opened /\ Len(log) < MaxOps /\ (HasClose => JustRewound) /\ opened' = TRUE /\ log' = Append(log, Ent("open", "ok", <<>>))
        /\ UNCHANGED <<c, spos, cache, frozen, data, rpos, lcount, ph, ocache, hist>>
Close == /\ c.rec /\ Len(log) < MaxOps /\ opened /\ opened' = FALSE /\ log' = Append(log, Ent("close", "ok", <<>>))
         /\ UNCHANGED <<c, spos, cache, frozen, data, rpos, lcount, ph, ocache, hist>>
ReadFixed == /\ c.h = c.b /\ CanOp
             /\ LET r == LimRead(c.b) IN Apply(r, r.blk, ph, ocache)
ReadOvInit == /\ c.h < c.b /\ ph = "init" /\ CanOp
              /\ LET r == LimRead(c.b) IN
                 IF r.blk = <<>> THEN Apply(r, <<>>, IF FixD3 THEN "dead" ELSE "broken", <<>>)
                 ELSE Apply(r, r.blk, "run", Drop(r.blk, c.h))
ReadOvRun  == /\ c.h < c.b /\ ph = "run" /\ CanOp
              /\ LET r == LimRead(c.h) IN
                 IF r.blk = <<>> THEN Apply(r, <<>>, "run", ocache)
                 ELSE LET blk == ocache \o r.blk IN Apply(r, blk, "run", Drop(blk, c.h))
ReadOvDead == /\ c.h < c.b /\ ph = "dead" /\ CanOp
              /\ Apply(NoRead, <<>>, "dead", <<>>)
\* pinned tree before the fix: the generator falls through after yielding None and raises TypeError
ReadOvBroken == /\ c.h < c.b /\ ph = "broken" /\ CanOp
                /\ log' = Append(log, Err("read", "TypeError")) /\ ph' = "dead"
                /\ UNCHANGED <<c, spos, cache, frozen, data, rpos, lcount, ocache, hist, opened>>
\* rewind (util.py:434-445, 490-492, 582-584): recording readers only
Rewind == /\ c.rec /\ Len(log) < MaxOps /\ (opened \/ HasClose)
          /\ IF frozen THEN UNCHANGED <<data, frozen, cache, opened>>
                       ELSE data' = cache /\ frozen' = TRUE /\ cache' = <<>> /\ opened' = TRUE        \* the first rewind opens the replay buffer
          /\ rpos' = 0 /\ lcount' = 0 /\ ph' = "init" /\ ocache' = <<>> /\ hist' = <<>>
          /\ log' = Append(log, Ent("rewind", "ok", <<>>)) /\ UNCHANGED <<c, spos>>
RewindNoRec == /\ ~c.rec /\ CanOp /\ log' = Append(log, Err("rewind", "AttributeError"))
               /\ UNCHANGED <<c, spos, cache, frozen, data, rpos, lcount, ph, ocache, hist, opened>>
\* .data (util.py:395-399, 423-429, 470-474, 744-754)
LimData == IF c.lim < 0 THEN data ELSE SubSeq(data, 1, Min2(Len(data), c.lim))
Data == /\ Len(log) < MaxOps /\ (opened \/ HasClose)
        /\ log' = Append(log, IF ~c.rec THEN Err("data", "AttributeError")
                              ELSE IF ~frozen THEN Err("data", "RuntimeError")
                              ELSE Ent("data", "blk", LimData))
        /\ UNCHANGED <<c, spos, cache, frozen, data, rpos, lcount, ph, ocache, hist, opened>>
Finished == Len(log) >= MaxOps /\ UNCHANGED vars
Next == ReadClosed \/ Open \/ Close \/ ReadFixed \/ ReadOvInit \/ ReadOvRun \/ ReadOvDead \/ ReadOvBroken \/ Rewind \/ RewindNoRec \/ Data \/ Finished
Spec == Init /\ [][Next]_vars

\* ---- declarative side (C10): what the k-th read since the last rewind must return
Visible == LET tot == IF frozen THEN Len(data) ELSE c.n IN
           IF c.lim < 0 THEN tot ELSE Min2(tot, c.lim)
Base(i) == IF frozen THEN data[i] ELSE i                 \* i-th visible sample
Slice(a, b) == [i \in 1..(b - a) |-> Base(a + i)]         \* visible samples a+1..b
Expected(k) ==
  IF c.h = c.b THEN (IF (k - 1) * c.b >= Visible THEN <<>> ELSE Slice((k - 1) * c.b, Min2(k * c.b, Visible)))
  ELSE IF k = 1 THEN Slice(0, Min2(c.b, Visible))
  ELSE IF (k - 2) * c.h + c.b < Visible THEN Slice((k - 1) * c.h, Min2((k - 1) * c.h + c.b, Visible))
  ELSE <<>>
\* reads on an OPEN reader never fail (position of the open() in the log, 0 if the reader started open)
OpenIdx == {i \in 1..Len(log) : log[i].op = "open"}
OpenAt == IF OpenIdx # {} THEN CHOOSE i \in OpenIdx : \A j \in OpenIdx : i <= j ELSE 0                \* the first open()
StartedOpen == IF log = <<>> THEN opened ELSE ~log[1].cl
\* reads on an OPEN reader never fail; on a closed one they raise an I/O error (or answer None where the statement does not choose)
NoErrors == \A i \in 1..Len(log) : log[i].op = "read" =>
               (IF ~log[i].cl THEN log[i].k \in {"blk", "none"} ELSE (log[i].k = "AudioIOError" \/ ((c.lim = 0 \/ HasClose) /\ log[i].k = "none")))
C10 == /\ NoErrors
       /\ \A k \in 1..Len(hist) : hist[k] = Expected(k)
       \* blocks have exactly b samples except the last one; after the first None every read gives None
       /\ \A k \in 1..Len(hist) : Len(hist[k]) <= c.b /\ (k < Len(hist) /\ hist[k+1] # <<>> => Len(hist[k]) = c.b)
       /\ \A k \in 1..(Len(hist) - 1) : hist[k] = <<>> => hist[k+1] = <<>>
       \* never more than the visible data is taken from the source
       /\ (c.lim >= 0 => spos <= c.lim)
\* ---- link to the integer abstraction ReaderInt (proved for ALL sizes by Apalache): its shape invariant, read on the concrete registers
\* (k = reads since the last rewind, position = position in the stream being read: the source, or the recording while replaying)
SrcPos == IF frozen THEN rpos ELSE spos
AbsShape == LET kk == Len(hist) IN
            /\ (c.h = c.b => SrcPos = Min2(Visible, kk * c.b))
            /\ (c.h < c.b /\ ph = "init" => kk = 0 /\ SrcPos = 0)
            /\ (c.h < c.b /\ ph = "dead" /\ FixD3 => kk >= 1 /\ Visible = 0 /\ SrcPos = 0)
            /\ (c.h < c.b /\ ph = "run" => /\ kk >= 1 /\ Visible >= 1
                                          /\ \/ (SrcPos = c.b + (kk - 1) * c.h /\ SrcPos <= Visible /\ Len(ocache) = c.b - c.h)
                                             \/ (SrcPos = Visible /\ c.b + (kk - 1) * c.h >= Visible))
\* ---- C19: recorder
C19 == /\ (frozen => /\ data = Ids(0, Len(data))                 \* each consumed sample once, in order
                     /\ Len(data) = spos                          \* exactly what was consumed from the source
                     /\ (c.lim >= 0 => Len(data) <= c.lim))
       /\ (~frozen /\ c.rec => cache = Ids(0, spos))
       /\ (~c.rec => ~frozen /\ cache = <<>>)
       \* data is only ever exposed after a rewind, and it is the consumed prefix
       /\ \A i \in 1..Len(log) : log[i].op = "data" /\ log[i].k = "blk" => log[i].ids = Ids(0, Len(log[i].ids)) /\ c.rec
\* replay: after a rewind the blocks read are a prefix-wise copy of those read before it (checked on the log)
\* the reads made on an OPEN reader between two positions of the log (reads on a closed reader are not part of any pass)
ReadsBetween(i, j) == SelectSeq(SubSeq(log, i, j), LAMBDA e : e.op = "read" /\ ~e.cl)
RewindIdx == {i \in 1..Len(log) : log[i].op = "rewind" /\ log[i].k = "ok"}
C19Replay == \A i \in RewindIdx :
               LET prevs == {j \in RewindIdx : j < i}
                   lo == IF prevs = {} THEN 1 ELSE (CHOOSE j \in prevs : \A m \in prevs : m <= j) + 1      \* reads before open() are not part of any pass
                   nexts == {j \in RewindIdx : j > i}
                   hi == IF nexts = {} THEN Len(log) ELSE (CHOOSE j \in nexts : \A m \in nexts : j <= m) - 1
                   before == ReadsBetween(lo, i - 1)
                   after == ReadsBetween(i + 1, hi)
               IN \A m \in 1..Min2(Len(before), Len(after)) :
                    \* the first rewind freezes what was consumed: blocks consumed before are replayed identically
                    (before[m].k = "blk" => after[m] = before[m])
TypeOK == spos \in 0..c.n /\ lcount >= 0 /\ (c.lim >= 0 => lcount <= c.lim) /\ ph \in {"init", "run", "dead", "broken"}
=======================================================================
