---------------------------- MODULE FilesTrace ----------------------------
(* Trace specification for saving and loading audio: a pool of regions and a file system (sequence of
   [nm, fmt, par, ids]); every logged save / load / numpy call carries what was observed (returned name,
   file contents read back byte-for-byte and projected to sample ids, header parameters, loaded region)
   and must be what module Files prescribes: load o save = identity, load(skip, max_read) = the slice
   [round(skip*rate), round(skip*rate) + round(max_read*rate)) of the file (possibly empty; same tolerance
   band at rounding switch points as in Region), exists_ok = False never touches an existing file, the
   file name is the template filled from the region, numpy() is the signed little-endian decode
   (Energy!Window) of the region's bytes.                                                          *)
EXTENDS Region, Json, IOUtils, TLCExt
En == INSTANCE Energy
Traces == JsonDeserialize(IOEnv.TRACE_FILE)
VARIABLES tid, l, pool, fs
tvars == <<tid, l, pool, fs>>
Ev == Traces[tid].ev
E == Ev[l]
TInit == tid \in 1..Len(Traces) /\ l = 1 /\ pool = Traces[tid].pool /\ fs = <<>>
Idx(nm) == {i \in 1..Len(fs) : fs[i].nm = nm}
Exists(nm) == Idx(nm) # {}
File(nm) == fs[CHOOSE i \in Idx(nm) : TRUE]
Put(nm, rec) == IF Exists(nm) THEN fs' = [i \in 1..Len(fs) |-> IF fs[i].nm = nm THEN rec ELSE fs[i]] ELSE fs' = Append(fs, rec)
OkSave == /\ E.op = "save" /\ E.nm = E.expnm                                   \* placeholders filled from the region
          /\ IF ~E.eok /\ Exists(E.nm)
             THEN /\ E.k = "FileExistsError" /\ E.file = File(E.nm).ids /\ E.hdr = File(E.nm).hdr /\ UNCHANGED fs      \* untouched
             ELSE /\ E.k = "ok" /\ E.file = pool[E.r].ids                       \* exactly the region's samples
                  /\ E.hdr = (IF E.fmt = "wav" THEN pool[E.r].par ELSE <<0, 0, 0>>)
                  /\ Put(E.nm, [nm |-> E.nm, fmt |-> E.fmt, hdr |-> E.hdr, ids |-> E.file])
          /\ UNCHANGED pool
OkLoad == /\ E.op = "load" /\ Exists(E.nm) /\ E.k = "ok"
          /\ LET f == File(E.nm)  n == Len(f.ids)  sr == E.par[1] IN
             /\ (f.fmt = "wav" => E.par = f.hdr)                                  \* rate, width, channels survive
             /\ \E lo \in (RoundDiv(E.sn * sr, E.sd) - 1)..(RoundDiv(E.sn * sr, E.sd) + 1) :
                  /\ lo >= 0 /\ (IF E.sn = 0 THEN lo = 0 ELSE StopOK(lo, E.sn * sr, E.sd))
                  /\ IF E.mn = None THEN E.ret = SubSeq(f.ids, Min2(lo, n) + 1, n)
                     ELSE \E len \in (RoundDiv(E.mn * sr, E.md) - 1)..(RoundDiv(E.mn * sr, E.md) + 1) :
                            len >= 0 /\ StopOK(len, E.mn * sr, E.md) /\ E.ret = SubSeq(f.ids, Min2(lo, n) + 1, Min2(lo + len, n))
          /\ pool' = Append(pool, [ids |-> E.ret, par |-> E.par]) /\ UNCHANGED fs
\* a file written by other software (the harness): from then on part of the file system like any other
OkPlant == /\ E.op = "plant" /\ E.k = "ok" /\ Put(E.nm, [nm |-> E.nm, fmt |-> E.fmt, hdr |-> E.hdr, ids |-> E.file]) /\ UNCHANGED pool
\* a planted file of E.big samples (more than two million), loaded with skip / max_read beyond 2^20 samples: the event carries the first
\* sample, the count and whether the bytes were the file's, not the ids
OkBigLoad == /\ E.op = "bigload" /\ E.k = "ok"
             /\ LET n == E.big  sr == E.par[1] IN
                \E lo \in (RoundDiv(E.sn * sr, E.sd) - 1)..(RoundDiv(E.sn * sr, E.sd) + 1) :
                  /\ lo >= 0 /\ (IF E.sn = 0 THEN lo = 0 ELSE StopOK(lo, E.sn * sr, E.sd))
                  /\ E.first = Min2(lo, n) + 1 /\ E.match
                  /\ IF E.mn = None THEN E.len = n - Min2(lo, n)
                     ELSE \E len \in (RoundDiv(E.mn * sr, E.md) - 1)..(RoundDiv(E.mn * sr, E.md) + 1) :
                            len >= 0 /\ StopOK(len, E.mn * sr, E.md) /\ E.len = Min2(lo + len, n) - Min2(lo, n)
             /\ UNCHANGED <<pool, fs>>
OkNumpy == /\ E.op = "numpy" /\ E.k = "ok" /\ E.arr = En!Window(E.b, E.sw, E.c) /\ UNCHANGED <<pool, fs>>
Step == l <= Len(Ev) /\ l' = l + 1 /\ tid' = tid /\ (OkSave \/ OkLoad \/ OkNumpy \/ OkPlant \/ OkBigLoad)
TSpec == TInit /\ [][Step]_tvars
Mon == TLCSet(tid, l)
ASSUME \A t \in 1..Len(Traces) : TLCSet(t, 0)
Post == \A t \in 1..Len(Traces) : PrintT(ToJson(<<"TRACE", t, TLCGet(t), Len(Traces[t].ev) + 1>>))
=============================================================================
