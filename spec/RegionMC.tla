---------------------------- MODULE RegionMC ----------------------------
(* Case enumeration for Region: every (length, bytes per sample, start, stop) of the bound for slicing,
   every (length, divisor) for division, every instant on an eighth-of-a-sample grid for the views.
   Each case is one initial state; the invariants are the agreement statements; every case is exported
   with the result the specification prescribes (one implementation test per case).                 *)
EXTENDS Region, Json
CONSTANTS MaxLen, MaxBound, BPS
Bounds == (-MaxBound..MaxBound) \cup {None}
VARIABLES kind, n, bps, a, b
vars == <<kind, n, bps, a, b>>
Init == \/ kind = "slice" /\ n \in 0..MaxLen /\ bps \in BPS /\ a \in Bounds /\ b \in Bounds
        \/ kind = "div" /\ n \in 1..(MaxLen + 3) /\ bps = 1 /\ a \in 1..(MaxLen + 6) /\ b = 0
        \/ kind = "sec" /\ n \in 0..MaxLen /\ bps = 8 /\ a \in (-8 * MaxLen - 4)..(8 * MaxLen + 4) /\ b \in {None} \cup (-8 * MaxLen - 4)..(8 * MaxLen + 4)
Next == UNCHANGED vars
Spec == Init /\ [][Next]_vars
\* "sec": instants a/8 and b/8 samples at rate 1 sample per second (x = a/8): X = a, D = 8
SecResult == LET ga == TruncDiv(a, 8) IN IF b = None THEN PySlice(n, ga, None) ELSE PySlice(n, ga, RoundDiv(b, 8))
Agree == /\ (kind = "slice" => SliceAgree(n, bps, a, b))
         /\ (kind = "div" => DivAgree(n, a))
         \* views: the exact answer (truncate the start, round the stop) is always admissible, and away from the
         \* switch points it is the ONLY admissible answer
         /\ (kind = "sec" => /\ SecSliceOK(n, 1, a, 8, b, 8, SecResult[1], SecResult[2])
                              /\ ((Rem(a, 8) \in 1..7 /\ (b = None \/ Rem(b, 8) # 4)) =>
                                     \A lo \in 0..n, hi \in 0..n : SecSliceOK(n, 1, a, 8, b, 8, lo, hi) => <<lo, hi>> = SecResult))
Export == PrintT(ToJson([kind |-> kind, n |-> n, bps |-> bps, a |-> a, b |-> b,
                         res |-> IF kind = "slice" THEN PySlice(n, a, b) ELSE IF kind = "div" THEN DivLens(n, a) ELSE SecResult]))
=========================================================================
