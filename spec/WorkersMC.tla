---------------------------- MODULE WorkersMC ----------------------------
EXTENDS Workers
Tok(mn, mx, sl) == [min |-> mn, max |-> mx, sil |-> sl, imin |-> 0, isil |-> 0, strict |-> FALSE, drop |-> FALSE]
Cfg(t, n, sv, ca, st) == [min |-> t.min, max |-> t.max, sil |-> t.sil, imin |-> 0, isil |-> 0, strict |-> t.strict, drop |-> t.drop,
                          nobs |-> n, saver |-> sv, cache |-> ca, stop |-> st, joiner |-> 0]
ToksQ == {Tok(1, 2, 1), Tok(2, 2, 0)}
\* quick: 1 observer + saver, natural end and stop; thorough adds 2 observers, no observer, cache thresholds
PSetQuick == {Cfg(t, 1, TRUE, 2, st) : t \in ToksQ, st \in BOOLEAN}
PSetObs2 == {Cfg(t, 2, sv, 2, TRUE) : t \in ToksQ, sv \in BOOLEAN}
\* an event-joining observer (drains its inbox after the stop marker) next to a plain one
PSetJoiner == {[Cfg(t, 2, FALSE, 2, st) EXCEPT !.joiner = 1] : t \in ToksQ, st \in BOOLEAN}
PSetCache == {Cfg(Tok(1, 2, 1), n, TRUE, ca, TRUE) : n \in {0, 1}, ca \in {1, 3, 100}}
=============================================================================
