---------------------------- MODULE WorkersProps ----------------------------
(* What C12 / C13 / C14 say about a worker pipeline, as pure operators over observations, so that the
   implementation-shaped model (Workers) and the judge of observed runs (WorkersObs) use one text.   *)
EXTENDS Naturals, Integers, Sequences, FiniteSets
IsPrefix(a, b) == Len(a) <= Len(b) /\ \A i \in 1..Len(a) : a[i] = b[i]
Ids(n) == [i \in 1..n |-> i]
\* C12 while running: what an observer has processed so far is 1, 2, 3, ... in order, nothing it was never sent
ObsPrefixOK(proc, ndets) == IsPrefix(proc, Ids(ndets))
\* C12 / C14 at the end: every observer processed every detection exactly once, in order
ObsFinalOK(proc, ndets) == proc = Ids(ndets)
\* C13: the saved stream is always a prefix of the blocks read, and all of them once the writer has ended
FilePrefixOK(file, blocks) == IsPrefix(file, blocks)
FileFinalOK(file, blocks, closed) == file = blocks /\ closed
=============================================================================
