---------------------------- MODULE WorkersProps ----------------------------
(* What C12 / C13 / C14 say about a worker pipeline, as pure operators over observations, so that the
   implementation-shaped model (Workers) and the judge of observed runs (WorkersObs) use one text.   *)
EXTENDS Naturals, Integers, Sequences, FiniteSets
IsPrefix(a, b) == Len(a) <= Len(b) /\ \A i \in 1..Len(a) : a[i] = b[i]
Ids(n) == [i \in 1..n |-> i]
\* C12 while running: what an observer has processed so far is 1, 2, 3, ... in order, nothing it was never sent
ObsPrefixOK(proc, ndets) == IsPrefix(proc, Ids(ndets))
\* C12 / C14 at the end: every observer processed every detection exactly once, in order
ObsFinalOK(proc, ndets) == proc = Ids(ndets)
\* C13: the saved stream is always a prefix of the blocks read, and all of them once the writer has ended
FilePrefixOK(file, blocks) == IsPrefix(file, blocks)
FileFinalOK(file, blocks, closed) == file = blocks /\ closed
\* X03 (beyond the list): the processing log.  An entry is <<who, id>>: who = 0 is the tokenizer worker's own "[DET]" line, who = o >= 1
\* the "[SAVE]" / "[PLAY]" / "[COMMAND]" line of observer o.  Every line of an observer comes after the tokenizer's line for the same
\* detection; the tokenizer's lines are 1, 2, 3, ... and each logging observer's lines are exactly what it processed, in order.
RECURSIVE LogProj(_, _)
LogProj(log, w) == IF log = <<>> THEN <<>> ELSE IF Head(log)[1] = w THEN <<Head(log)[2]>> \o LogProj(Tail(log), w) ELSE LogProj(Tail(log), w)
LogCausalOK(log) == \A i \in 1..Len(log) : log[i][1] # 0 => \E j \in 1..(i - 1) : log[j] = <<0, log[i][2]>>
LogOK(log, ndets, procs, loggers) == /\ LogCausalOK(log) /\ LogProj(log, 0) = Ids(ndets)
                                     /\ \A o \in loggers : LogProj(log, o) = procs[o]
=============================================================================
