---------------------------- MODULE CliTrace ----------------------------
(* Judge of observed command-line runs.  Each run record carries the option vector, what the program did
   (exit status, parsed stdout lines, projected files) and the detections the API split() returned for the
   keyword arguments Cli!Kwargs prescribes (computed by the harness from the exported kwargs):
   run = [present (set of option names given), exit, nlines, lines |-> <<[id, tf, s, e, d]>> (times parsed to
   whole milliseconds W, or field tuples), dets |-> <<[sn, sd, en, ed, dn, dd]>> (exact instants),
   stream_ok, joined_ok, regions_ok, extra_files, raised]                                           *)
EXTENDS Cli, Json, IOUtils, TLCExt
Runs == JsonDeserialize(IOEnv.TRACE_FILE)
VARIABLES i
Init == i \in 1..Len(Runs)
Next == UNCHANGED i
Spec == Init /\ [][Next]_i
X == Runs[i]
Present == {X.present[k] : k \in 1..Len(X.present)}
O == [k \in Present |-> TRUE]              \* only presence matters for the outcome predicates
\* wms = whole milliseconds of the float the API reports for this instant (int(v * 1000), plain IEEE arithmetic on the API's
\* value): for %I and the field formats the printed value must be exactly that, and within the O2 tolerance of the exact instant
TimeOK(tf, W, num, den, wms) == IF tf = "S" THEN OkS(W, num, den) ELSE (OkI(W, num, den) /\ W = wms)
LineOK(k) == LET ln == X.lines[k]  d == X.dets[k] IN
   /\ ln.id = k                                                           \* ids count from 1
   /\ TimeOK(X.tf, ln.s, d.sn, d.sd, d.sms) /\ TimeOK(X.tf, ln.e, d.en, d.ed, d.ems) /\ (ln.hasd => TimeOK(X.tf, ln.d, d.dn, d.dd, d.dms))
   /\ ln.fields_ok                                                        \* zero padding / field ranges / recomposition (projection + OkFields below)
   /\ (X.tf = "F" => OkFields(ln.sf[1], ln.sf[2], ln.sf[3], ln.sf[4], ln.s) /\ OkFields(ln.ef[1], ln.ef[2], ln.ef[3], ln.ef[4], ln.e))
C15 == IF X.tf = "X" THEN X.raised            \* unknown time-format directive: an error, not output
       ELSE
       /\ X.exit = Exit(O) /\ ~X.raised
       /\ IF Prints(O) THEN Len(X.lines) = Len(X.dets) /\ \A k \in 1..Len(X.lines) : LineOK(k) ELSE Len(X.lines) = 0
       /\ (SavesStream(O) => X.stream_ok) /\ (JoinsEvents(O) => X.joined_ok) /\ (SavesRegions(O) => X.regions_ok)
       /\ X.extra_files = 0                                               \* nothing else is written
       /\ X.unparsed = 0
\* X04: side effects of -C / -E / --debug-file / -D / -T / --save-image.  X.fx holds the projections made by the harness:
\* ncommands / commands_ok (order, {file} substituted, wav = the detection), nplayed / echo_ok (concatenation of what the fake device was
\* given = the detections in order), log (file) and elog (stderr) = <<who, id, line_ok>>, nplots / plot_ok, export by format in stream_ok / regions_ok
WP == INSTANCE WorkersProps
LogSeqOK(lg) == /\ \A k \in 1..Len(lg) : lg[k][3] = 1
                /\ WP!LogOK([k \in 1..Len(lg) |-> <<lg[k][1], lg[k][2]>>], Len(X.dets), [w \in 1..3 |-> WP!Ids(Len(X.dets))], LogWriters(O))
                /\ \A k \in 1..Len(lg) : lg[k][1] \in {0} \cup LogWriters(O)
X04 == IF X.tf = "X" THEN X.raised ELSE
       /\ (IF PlotCrashes(O) THEN X.raised ELSE X.exit = Exit(O) /\ ~X.raised)
       /\ IF RunsCommands(O) THEN X.fx.ncommands = Len(X.dets) /\ X.fx.commands_ok ELSE X.fx.ncommands = 0
       /\ IF Echoes(O) THEN X.fx.echo_ok ELSE X.fx.nplayed = 0
       /\ IF LogsToFile(O) THEN X.fx.logfile /\ LogSeqOK(X.fx.log) ELSE ~X.fx.logfile
       /\ IF LogsToStderr(O) THEN LogSeqOK(X.fx.elog) ELSE Len(X.fx.elog) = 0
       /\ IF Plots(O) /\ ~PlotCrashes(O) THEN X.fx.nplots = 1 /\ X.fx.plot_ok ELSE X.fx.nplots = 0
       /\ (SavesStream(O) => X.stream_ok) /\ (JoinsEvents(O) => X.joined_ok) /\ (SavesRegions(O) => X.regions_ok)
       /\ X.extra_files = 0
       \* microphone input: the device was opened once for input with exactly the prescribed parameters (X.micopen comes from Cli!MicOpen via the export)
       /\ IF X.mic /\ Exit(O) = 0 THEN X.fx.mic_opens >= 1 /\ X.fx.mic_open = X.micopen ELSE X.fx.mic_opens = 0        \* rejected arguments open nothing
Mon == TLCSet(i, (IF C15 THEN 1 ELSE 2) + (IF X.hasfx /\ ~X04 THEN 2 ELSE 0))
ASSUME \A t \in 1..Len(Runs) : TLCSet(t, 0)
Post == \A t \in 1..Len(Runs) : PrintT(ToJson(<<"TRACE", t, TLCGet(t), 1>>))
=============================================================================
