---------------------------- MODULE Files ----------------------------
(* to_file / AudioRegion.save / load / from_file (io.py:74-105, 822-914, 1026-1172; core.py:493-531,
   684-721, 773-850) as a file-system state machine.  A region is [ids, par] (par = <<rate, width,
   channels>>); the file system maps names to [fmt, par, ids] (a raw file has no header: par is what the
   caller passes when loading).  Save(r, name, fmt, exists_ok) and Load(name, skip, max_read) with times
   on a half-sample grid (skip = s2/2 samples, max_read = m2/2 samples; None = -9999).                *)
EXTENDS Naturals, Integers, Sequences, FiniteSets, TLC
CONSTANTS MaxN, Names, MaxOps
None == -9999
Min2(a, b) == IF a < b THEN a ELSE b
Max2(a, b) == IF a > b THEN a ELSE b
Ids(a, b) == [i \in 1..(b - a) |-> a + i]
\* round(x/2) with Python's round-half-even on the exact tie (values on the half-sample grid are exact floats at dyadic rates)
RoundHalf(x2) == IF x2 % 2 = 0 THEN x2 \div 2 ELSE LET lo == x2 \div 2 IN IF lo % 2 = 0 THEN lo ELSE lo + 1
VARIABLES fs, regs, log
vars == <<fs, regs, log>>
NoFile == [fmt |-> "none", par |-> <<0, 0, 0>>, ids |-> <<>>]
Init == /\ fs = [nm \in Names |-> NoFile]
        /\ regs \in {<<[ids |-> Ids(0, n), par |-> <<8, 2, 1>>]>> : n \in 0..MaxN}
        /\ log = <<>>
CanOp == Len(log) < MaxOps
\* Save: exists_ok = FALSE refuses to touch an existing file; otherwise the file holds the region's samples (+ header for wav)
Save(r, nm, fmt, eok) ==
  /\ CanOp /\ r \in 1..Len(regs)
  /\ IF ~eok /\ fs[nm].fmt # "none"
     THEN /\ log' = Append(log, [op |-> "save", r |-> r, nm |-> nm, fmt |-> fmt, eok |-> eok, k |-> "FileExistsError", ids |-> <<>>, s2 |-> 0, m2 |-> 0])
          /\ UNCHANGED <<fs, regs>>
     ELSE /\ fs' = [fs EXCEPT ![nm] = [fmt |-> fmt, par |-> (IF fmt = "wav" THEN regs[r].par ELSE <<0, 0, 0>>), ids |-> regs[r].ids]]
          /\ log' = Append(log, [op |-> "save", r |-> r, nm |-> nm, fmt |-> fmt, eok |-> eok, k |-> "ok", ids |-> regs[r].ids, s2 |-> 0, m2 |-> 0])
          /\ UNCHANGED regs
\* Load: the whole file sliced at samples [round(skip*rate), round(skip*rate) + round(max_read*rate)), possibly empty
Sel(ids, s2, m2) ==
  LET n == Len(ids)
      lo == Min2(IF s2 > 0 THEN RoundHalf(s2) ELSE 0, n)
      hi == IF m2 = None \/ m2 < 0 THEN n ELSE Min2(lo + RoundHalf(m2), n) IN
  SubSeq(ids, lo + 1, hi)
Load(nm, s2, m2) ==
  /\ CanOp /\ fs[nm].fmt # "none"
  /\ LET got == Sel(fs[nm].ids, s2, m2) IN
     /\ regs' = Append(regs, [ids |-> got, par |-> <<8, 2, 1>>])
     /\ log' = Append(log, [op |-> "load", r |-> Len(regs) + 1, nm |-> nm, fmt |-> fs[nm].fmt, eok |-> TRUE, k |-> "ok", ids |-> got, s2 |-> s2, m2 |-> m2])
  /\ UNCHANGED fs
Finished == ~CanOp /\ UNCHANGED vars
Next == \/ \E r \in 1..Len(regs), nm \in Names, fmt \in {"wav", "raw"}, eok \in BOOLEAN : Save(r, nm, fmt, eok)
        \/ \E nm \in Names, s2 \in 0..(2 * MaxN + 3), m2 \in {None} \cup 0..(2 * MaxN + 3) : Load(nm, s2, m2)
        \/ Finished
Spec == Init /\ [][Next]_vars
(* C18 *)
\* load after save gives back the saved audio (identity), with skip / max_read the Python slice of it
RoundTrip == \A i \in 1..Len(log) : log[i].op = "load" /\ log[i].s2 = 0 /\ log[i].m2 = None =>
               \E j \in 1..(i - 1) : log[j].op = "save" /\ log[j].k = "ok" /\ log[j].nm = log[i].nm /\ log[j].ids = log[i].ids
                                     /\ \A m \in (j + 1)..(i - 1) : ~(log[m].op = "save" /\ log[m].k = "ok" /\ log[m].nm = log[i].nm)
NoOverwrite == \A i \in 1..Len(log) : log[i].op = "save" /\ ~log[i].eok =>
               (log[i].k = "FileExistsError" <=> \E j \in 1..(i - 1) : log[j].op = "save" /\ log[j].k = "ok" /\ log[j].nm = log[i].nm)
SliceOK == \A i \in 1..Len(log) : log[i].op = "load" =>
               \* contiguous ids, starting at round(skip) (clipped), at most round(max_read) long
               LET g == log[i].ids IN (g = <<>> \/ g = Ids(g[1] - 1, g[1] - 1 + Len(g)))
                                       /\ (log[i].m2 # None => Len(g) <= RoundHalf(log[i].m2))
C18 == RoundTrip /\ NoOverwrite /\ SliceOK
=======================================================================
