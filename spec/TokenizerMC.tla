---------------------------- MODULE TokenizerMC ----------------------------
(* Model-checking wrapper of Tokenizer: history variables for the prefix-consistency part of C08 and
   the export of every terminal behaviour (leg R: one implementation test per behaviour).          *)
EXTENDS Tokenizer, Json
VARIABLES fc, nout      \* flush candidate and number of delivered tokens, snapshotted when the previous frame was requested
pvars == <<vars, fc, nout>>
PInit == Init /\ fc = NoTok /\ nout = 0
hv == <<fc, nout>>
MReadFrame == (\E v \in BOOLEAN : ReadFrame(v)) /\ fc' = FlushNow /\ nout' = Len(out)
MSilSkip == SilSkip /\ UNCHANGED hv
MSilStart == SilStart /\ UNCHANGED hv
MPNValid == PNValid /\ UNCHANGED hv
MPNInvalid == PNInvalid /\ UNCHANGED hv
MNValid == NValid /\ UNCHANGED hv
MNInvalid == NInvalid /\ UNCHANGED hv
MPSValid == PSValid /\ UNCHANGED hv
MPSInvalid == PSInvalid /\ UNCHANGED hv
MEmit == Emit /\ UNCHANGED hv
MReadEOS == ReadEOS /\ UNCHANGED hv
MFinished == Finished /\ UNCHANGED hv
PNext == MReadFrame \/ MSilSkip \/ MSilStart \/ MPNValid \/ MPNInvalid \/ MNValid \/ MNInvalid \/ MPSValid \/ MPSInvalid \/ MEmit \/ MReadEOS \/ MFinished
PSpec == PInit /\ [][PNext]_pvars
\* evaluated whenever the tokenizer is back at a suspension point after processing one more frame:
\* the tokens of the prefix that ended one frame earlier are those delivered so far, plus the candidate;
\* the candidate either became a delivered token with the same start and at least its length, or is
\* still open and only grew.  (This is the statement "the tokens of any prefix equal those of the whole
\* stream except that the prefix's last token, if produced by the flush, may be a shorter version".)
FlushCandidateKept ==
  (pc = "read" /\ fc # NoTok) =>
     \/ /\ Len(out) = nout + 1
        /\ out[Len(out)].start = fc.start /\ TLen(out[Len(out)]) >= Len(fc.frames)
     \/ /\ Len(out) = nout
        /\ FlushNow # NoTok /\ FlushNow.start = fc.start /\ Len(FlushNow.frames) >= Len(fc.frames)
\* conversely a token can only be delivered at a frame if it was the flush candidate before or is born and cut at once (max = 1 ...)
NoSurprise == (pc = "read" /\ Len(out) = nout + 1 /\ fc # NoTok) => out[Len(out)].start = fc.start
PAppendOnly == [][Len(out') >= Len(out) /\ \A i \in 1..Len(out) : out'[i] = out[i]]_pvars
\* export of terminal behaviours: input (p, stream) and everything observable
Export == done => PrintT(ToJson([p |-> p, s |-> stream,
                                 o |-> [i \in 1..Len(out) |-> <<out[i].start, out[i].end, out[i].at, out[i].fl>>]]))
=============================================================================
