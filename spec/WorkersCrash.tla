---------------------------- MODULE WorkersCrash ----------------------------
(* Beyond the list (X06, an OBSERVATION, not a property of the list): what the pipeline does when the audio source raises in
   the middle of the stream (a truncated wav file, a closed pipe, a device error).  The exception leaves
   TokenizerWorker.run (workers.py:110-130) before the stop markers are sent: the tokenizer thread is gone, nobody tells the
   observers or the stream saver that the stream is over, and they wait on their inboxes for ever -- the natural end
   (join) never comes; only an external stop_all() (Ctrl-C in the command line) ends them.  The deviation is named as an
   action (TCrash) instead of being idealised away; Workers itself is untouched.                                          *)
EXTENDS WorkersMC
TCrash == /\ tpc = "read" /\ tpc' = "dead"
          /\ UNCHANGED <<tokv, inbox, nidx, opc, processed, spc, cache, file, fclosed, mpc, midx>>
\* join() on a thread that died returns like on one that ended
MJoinDead == /\ mpc = "running" /\ tpc = "dead"
             /\ mpc' = (IF NObs > 0 THEN "join_obs" ELSE IF UseSaver THEN "join_saver" ELSE "done") /\ midx' = 1
             /\ UNCHANGED <<tokv, inbox, tpc, nidx, opc, processed, spc, cache, file, fclosed>>
MSJoinDead == /\ mpc = "s_join_tok" /\ tpc = "dead"
              /\ mpc' = (IF NObs > 0 THEN "s_stop_obs" ELSE IF UseSaver THEN "s_stop_saver" ELSE "done") /\ midx' = 1
              /\ UNCHANGED <<tokv, inbox, tpc, nidx, opc, processed, spc, cache, file, fclosed>>
CNext == Next \/ TCrash \/ MJoinDead \/ MSJoinDead
CSpec == Init /\ [][CNext]_vars /\ WF_vars(MainNext \/ MJoinDead \/ MSJoinDead) /\ WF_vars(TokNext)
         /\ (\A o \in 1..MaxObs : WF_vars(OBegin(o) \/ OGet(o) \/ ODrain(o))) /\ WF_vars(SavNext)
MainDone == mpc = "done"
\* after a crash main can only finish through stop_all(): the natural end needs the stop markers that were never sent
HangsWithoutStop == (tpc = "dead" /\ (NObs > 0 \/ UseSaver) /\ MainDone) => inbox["tok"] # <<>>
\* ... and stop_all() does end everything: once main has asked for the stop after a crash, every thread terminates
StopRescues == (tpc = "dead" /\ mpc = "s_join_tok") ~> (MainDone /\ (\A o \in Obs : opc[o] = "done") /\ (UseSaver => spc = "done"))
\* what was delivered before the crash is still right
PrefixStillOK == \A o \in Obs : ObsPrefixOK(processed[o], Len(out))
=============================================================================
