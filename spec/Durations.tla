---------------------------- MODULE Durations ----------------------------
(* split()'s conversion of durations in seconds into counts of analysis windows (core.py:218-303,
   377-415) and the block size in samples (util.py:500-515), in exact integer arithmetic.
   Durations are integers in units of 1/U second (U = 10000: 0.1 ms), so that "0.07 / 0.01" is exactly
   7 -- the reading the property statement gives ("quotients within 1e-9 of an integer count as that
   integer").  The window w is a rational wn/wd seconds: wn/U for an analysis_window argument given in
   units, block_size/rate for an AudioReader input.                                               *)
EXTENDS Naturals, Integers
U == 10000
CeilDiv(a, b) == (a + b - 1) \div b
\* duration d units, window wn/wd seconds:  d/U / (wn/wd) = d*wd / (U*wn)
MinLen(d, wn, wd) == CeilDiv(d * wd, U * wn)        \* smallest count whose duration covers min_dur
MaxLen(d, wn, wd) == (d * wd) \div (U * wn)          \* largest count not exceeding max_dur
MaxSil(d, wn, wd) == (d * wd) \div (U * wn)
BlockSize(w, sr) == (w * sr) \div U                 \* floor(analysis_window * rate), w in units
\* split() raises ValueError exactly in these cases (rdr: the input is an AudioReader, whose window is already valid)
Reject(mind, maxd, sild, wn, wd, sr, rdr) ==
   \/ mind <= 0 \/ maxd <= 0 \/ sild < 0
   \/ (~rdr /\ (wn <= 0 \/ BlockSize(wn, sr) = 0))
   \/ (wn > 0 /\ MinLen(mind, wn, wd) > MaxLen(maxd, wn, wd))
   \/ (wn > 0 /\ MaxSil(sild, wn, wd) >= MaxLen(maxd, wn, wd))
=============================================================================
