---------------------------- MODULE Workers ----------------------------
(* auditok/workers.py as a concurrent protocol.  Every action is exactly one scheduling point
   of the code (a Queue operation, the source read, Thread.start/join, thread begin) together
   with the thread-local computation that follows it up to the next scheduling point. *)
EXTENDS TokCore, WorkersProps, FiniteSets, TLC
CONSTANTS MaxFrames, PSet
\* The configuration travels in the parameter record p (never modified): besides the tokenizer parameters
\* it says how many observers run, whether a StreamSaverWorker wraps the reader, its cache threshold in
\* blocks, and whether main may request a stop (stop_all) instead of waiting for the natural end.

VARIABLES p, r, cur, stream, out, finished,      \* tokenizer (thread-local to tok)
          inbox, tpc, nidx, opc, processed, spc, cache, file, fclosed, mpc, midx
NObs == p.nobs
UseSaver == p.saver
CacheBlocks == p.cache
AllowStop == p.stop
IsJoiner(o) == p.joiner = o            \* index of the observer that is an AudioEventsJoinerWorker (0: none)
tokv == <<p, r, cur, stream, out, finished>>
vars == <<p, r, cur, stream, out, finished, inbox, tpc, nidx, opc, processed, spc, cache, file, fclosed, mpc, midx>>
Obs == 1..NObs
MaxObs == 3
ON(i) == <<"o1", "o2", "o3">>[i]
Threads == {"tok", "saver", "o1", "o2", "o3"}
Stop == [k |-> "stop"]
Put(t, m) == inbox' = [inbox EXCEPT ![t] = Append(@, m)]

Init == /\ p \in PSet /\ r = Regs0 /\ cur = -1 /\ stream = <<>> /\ out = <<>> /\ finished = FALSE
        /\ inbox = [t \in Threads |-> <<>>] /\ tpc = "unstarted" /\ nidx = 1
        /\ opc = [o \in 1..MaxObs |-> "unstarted"] /\ processed = [o \in 1..MaxObs |-> <<>>]
        /\ spc = "unstarted" /\ cache = <<>> /\ file = <<>> /\ fclosed = FALSE
        /\ mpc = (IF UseSaver THEN "start_saver" ELSE IF NObs > 0 THEN "start_obs" ELSE "start_tok") /\ midx = 1

(* ------------------------------ main ------------------------------ *)
AfterObsLoop(cur_i, again, after) == IF cur_i < NObs THEN again ELSE after
MStartSaver == /\ mpc = "start_saver" /\ spc' = "begin" /\ mpc' = (IF NObs > 0 THEN "start_obs" ELSE "start_tok")
               /\ UNCHANGED <<tokv, inbox, tpc, nidx, opc, processed, cache, file, fclosed, midx>>
MStartObs == /\ mpc = "start_obs" /\ opc' = [opc EXCEPT ![midx] = "begin"]
             /\ mpc' = AfterObsLoop(midx, "start_obs", "start_tok") /\ midx' = (IF midx < NObs THEN midx + 1 ELSE 1)
             /\ UNCHANGED <<tokv, inbox, tpc, nidx, processed, spc, cache, file, fclosed>>
MStartTok == /\ mpc = "start_tok" /\ tpc' = "begin" /\ mpc' = "running"
             /\ UNCHANGED <<tokv, inbox, nidx, opc, processed, spc, cache, file, fclosed, midx>>
\* natural end: tokenizer.join(); observer joins; saver join
MJoinTok == /\ mpc = "running" /\ tpc = "done"
            /\ mpc' = (IF NObs > 0 THEN "join_obs" ELSE IF UseSaver THEN "join_saver" ELSE "done") /\ midx' = 1
            /\ UNCHANGED <<tokv, inbox, tpc, nidx, opc, processed, spc, cache, file, fclosed>>
MJoinObs == /\ mpc = "join_obs" /\ opc[midx] = "done"
            /\ mpc' = AfterObsLoop(midx, "join_obs", IF UseSaver THEN "join_saver" ELSE "done")
            /\ midx' = (IF midx < NObs THEN midx + 1 ELSE 1)
            /\ UNCHANGED <<tokv, inbox, tpc, nidx, opc, processed, spc, cache, file, fclosed>>
MJoinSaver == /\ mpc = "join_saver" /\ spc = "done" /\ mpc' = "done"
              /\ UNCHANGED <<tokv, inbox, tpc, nidx, opc, processed, spc, cache, file, fclosed, midx>>
\* stop_all(): stop() = send STOP + join, for tok then every observer, then reader.close()
MStopTok == /\ AllowStop /\ mpc = "running" /\ Put("tok", Stop) /\ mpc' = "s_join_tok"
            /\ UNCHANGED <<tokv, tpc, nidx, opc, processed, spc, cache, file, fclosed, midx>>
MSJoinTok == /\ mpc = "s_join_tok" /\ tpc = "done"
             /\ mpc' = (IF NObs > 0 THEN "s_stop_obs" ELSE IF UseSaver THEN "s_stop_saver" ELSE "done") /\ midx' = 1
             /\ UNCHANGED <<tokv, inbox, tpc, nidx, opc, processed, spc, cache, file, fclosed>>
MSStopObs == /\ mpc = "s_stop_obs" /\ Put(ON(midx), Stop) /\ mpc' = "s_join_obs"
             /\ UNCHANGED <<tokv, tpc, nidx, opc, processed, spc, cache, file, fclosed, midx>>
MSJoinObs == /\ mpc = "s_join_obs" /\ opc[midx] = "done"
             /\ mpc' = AfterObsLoop(midx, "s_stop_obs", IF UseSaver THEN "s_stop_saver" ELSE "done")
             /\ midx' = (IF midx < NObs THEN midx + 1 ELSE 1)
             /\ UNCHANGED <<tokv, inbox, tpc, nidx, opc, processed, spc, cache, file, fclosed>>
MSStopSaver == /\ mpc = "s_stop_saver" /\ Put("saver", Stop) /\ mpc' = "join_saver"
               /\ UNCHANGED <<tokv, tpc, nidx, opc, processed, spc, cache, file, fclosed, midx>>
MainNext == MStartSaver \/ MStartObs \/ MStartTok \/ MJoinTok \/ MJoinObs \/ MJoinSaver
            \/ MSJoinTok \/ MSStopObs \/ MSJoinObs \/ MSStopSaver

(* ------------------------------ tokenizer thread ------------------------------ *)
AfterFinish == IF NObs > 0 THEN "stopobs" ELSE IF UseSaver THEN "stopsaver" ELSE "done"
\* local computation after a frame (s = Step result) or after end of stream (s = Flush result)
Local(s, fin) ==
  /\ r' = s.r /\ finished' = fin
  /\ out' = (IF s.tok = NoTok THEN out ELSE Append(out, [start |-> s.tok.start, end |-> s.tok.end]))
  /\ nidx' = 1
  /\ tpc' = (IF s.tok # NoTok /\ NObs > 0 THEN "notify" ELSE IF fin THEN AfterFinish ELSE "poll")
TBegin == /\ tpc = "begin" /\ tpc' = "poll"
          /\ UNCHANGED <<tokv, inbox, nidx, opc, processed, spc, cache, file, fclosed, mpc, midx>>
\* read(): _stop_requested() pops one message from the own inbox; STOP => end of stream for the tokenizer
TPollNone == /\ tpc = "poll" /\ inbox["tok"] = <<>> /\ tpc' = "read"
             /\ UNCHANGED <<tokv, inbox, nidx, opc, processed, spc, cache, file, fclosed, mpc, midx>>
TPollStop == /\ tpc = "poll" /\ inbox["tok"] # <<>> /\ Head(inbox["tok"]) = Stop
             /\ inbox' = [inbox EXCEPT !["tok"] = Tail(@)]
             /\ cur' = cur + 1 /\ Local(Flush(p, r, cur + 1), TRUE)
             /\ UNCHANGED <<p, stream, opc, processed, spc, cache, file, fclosed, mpc, midx>>
\* underlying source read
ProcessFrame(v) == /\ stream' = Append(stream, v) /\ Local(Step(p, r, cur', v), FALSE)
TRead(v) == /\ tpc = "read" /\ Len(stream) < MaxFrames /\ cur' = cur + 1
            /\ IF UseSaver THEN tpc' = "fwd" /\ UNCHANGED <<stream, r, out, finished, nidx>>
               ELSE ProcessFrame(v)
            /\ UNCHANGED <<p, inbox, opc, processed, spc, cache, file, fclosed, mpc, midx>>
TReadNone == /\ tpc = "read" /\ cur' = cur + 1
             /\ IF UseSaver THEN tpc' = "fwdstop" /\ UNCHANGED <<r, out, finished, nidx>>
                ELSE Local(Flush(p, r, cur + 1), TRUE)
             /\ UNCHANGED <<p, stream, inbox, opc, processed, spc, cache, file, fclosed, mpc, midx>>
\* StreamSaverWorker.read(): forward the block (or STOP) to the writer, then the tokenizer processes it
TFwd(v) == /\ tpc = "fwd" /\ Put("saver", [k |-> "blk", i |-> cur])
           /\ stream' = Append(stream, v) /\ Local(Step(p, r, cur, v), FALSE)
           /\ UNCHANGED <<p, cur, opc, processed, spc, cache, file, fclosed, mpc, midx>>
TFwdStop == /\ tpc = "fwdstop" /\ Put("saver", Stop) /\ Local(Flush(p, r, cur), TRUE)
            /\ UNCHANGED <<p, cur, stream, opc, processed, spc, cache, file, fclosed, mpc, midx>>
TNotify == /\ tpc = "notify" /\ Put(ON(nidx), [k |-> "det", id |-> Len(out)])
           /\ IF nidx < NObs THEN nidx' = nidx + 1 /\ tpc' = tpc
              ELSE nidx' = 1 /\ tpc' = (IF finished THEN AfterFinish ELSE "poll")
           /\ UNCHANGED <<tokv, opc, processed, spc, cache, file, fclosed, mpc, midx>>
TStopObs == /\ tpc = "stopobs" /\ Put(ON(nidx), Stop)
            /\ IF nidx < NObs THEN nidx' = nidx + 1 /\ tpc' = tpc
               ELSE nidx' = 1 /\ tpc' = (IF UseSaver THEN "stopsaver" ELSE "done")
            /\ UNCHANGED <<tokv, opc, processed, spc, cache, file, fclosed, mpc, midx>>
TStopSaver == /\ tpc = "stopsaver" /\ Put("saver", Stop) /\ tpc' = "joinsaver"
              /\ UNCHANGED <<tokv, nidx, opc, processed, spc, cache, file, fclosed, mpc, midx>>
TJoinSaver == /\ tpc = "joinsaver" /\ spc = "done" /\ tpc' = "done"
              /\ UNCHANGED <<tokv, inbox, nidx, opc, processed, spc, cache, file, fclosed, mpc, midx>>
TokNext == TBegin \/ TPollNone \/ TPollStop \/ (\E v \in BOOLEAN : TRead(v)) \/ TReadNone \/ (\E v \in BOOLEAN : TFwd(v)) \/ TFwdStop
           \/ TNotify \/ TStopObs \/ TStopSaver \/ TJoinSaver

(* ------------------------------ observers ------------------------------ *)
OBegin(o) == /\ opc[o] = "begin" /\ opc' = [opc EXCEPT ![o] = "get"]
             /\ UNCHANGED <<tokv, inbox, tpc, nidx, processed, spc, cache, file, fclosed, mpc, midx>>
OGet(o) == /\ opc[o] = "get" /\ inbox[ON(o)] # <<>>
           /\ LET m == Head(inbox[ON(o)]) IN
              /\ inbox' = [inbox EXCEPT ![ON(o)] = Tail(@)]
              \* a joining observer (AudioEventsJoinerWorker) drains its inbox after the stop marker (_post_process), others end at once
              /\ IF m = Stop THEN opc' = [opc EXCEPT ![o] = IF IsJoiner(o) THEN "drain" ELSE "done"] /\ processed' = processed
                 ELSE opc' = opc /\ processed' = [processed EXCEPT ![o] = Append(@, m.id)]
           /\ UNCHANGED <<tokv, tpc, nidx, spc, cache, file, fclosed, mpc, midx>>
\* AudioEventsJoinerWorker._post_process (workers.py:412-421): get_nowait until empty; detections still queued are written, stop markers ignored
ODrain(o) == /\ opc[o] = "drain"
             /\ IF inbox[ON(o)] # <<>>
                THEN LET m == Head(inbox[ON(o)]) IN
                     /\ inbox' = [inbox EXCEPT ![ON(o)] = Tail(@)]
                     /\ processed' = (IF m = Stop THEN processed ELSE [processed EXCEPT ![o] = Append(@, m.id)])
                     /\ opc' = opc
                ELSE opc' = [opc EXCEPT ![o] = "done"] /\ UNCHANGED <<inbox, processed>>
             /\ UNCHANGED <<tokv, tpc, nidx, spc, cache, file, fclosed, mpc, midx>>
OTimeout(o) == opc[o] = "get" /\ inbox[ON(o)] = <<>> /\ UNCHANGED vars

(* ------------------------------ stream saver (writer thread) ------------------------------ *)
SBegin == /\ spc = "begin" /\ spc' = "get"
          /\ UNCHANGED <<tokv, inbox, tpc, nidx, opc, processed, cache, file, fclosed, mpc, midx>>
SGet == /\ spc = "get" /\ inbox["saver"] # <<>>
        /\ LET m == Head(inbox["saver"]) IN
           /\ inbox' = [inbox EXCEPT !["saver"] = Tail(@)]
           /\ IF m = Stop THEN spc' = "drain" /\ UNCHANGED <<cache, file>>
              ELSE /\ spc' = spc
                   /\ IF Len(cache) + 1 >= CacheBlocks THEN file' = file \o Append(cache, m.i) /\ cache' = <<>>
                      ELSE cache' = Append(cache, m.i) /\ file' = file
        /\ UNCHANGED <<tokv, tpc, nidx, opc, processed, fclosed, mpc, midx>>
STimeout == spc = "get" /\ inbox["saver"] = <<>> /\ UNCHANGED vars
SDrain == /\ spc = "drain"
          /\ IF inbox["saver"] # <<>>
             THEN LET m == Head(inbox["saver"]) IN
                  /\ inbox' = [inbox EXCEPT !["saver"] = Tail(@)]
                  /\ cache' = (IF m = Stop THEN cache ELSE Append(cache, m.i))
                  /\ UNCHANGED <<spc, file, fclosed>>
             ELSE /\ file' = file \o cache /\ cache' = <<>> /\ fclosed' = TRUE /\ spc' = "done" /\ inbox' = inbox
          /\ UNCHANGED <<tokv, tpc, nidx, opc, processed, mpc, midx>>
SavNext == SBegin \/ SGet \/ SDrain

AllDone == /\ mpc = "done" /\ tpc = "done" /\ \A o \in Obs : opc[o] = "done" /\ (UseSaver => spc = "done")
Finished == AllDone /\ UNCHANGED vars
ObsBegin == \E o \in Obs : OBegin(o)
ObsGet == \E o \in Obs : OGet(o)
ObsTimeout == \E o \in Obs : OTimeout(o)
ObsDrain == \E o \in Obs : ODrain(o)
Next == MainNext \/ MStopTok \/ TokNext \/ ObsBegin \/ ObsGet \/ ObsDrain \/ ObsTimeout \/ SavNext \/ STimeout \/ Finished
Spec == Init /\ [][Next]_vars /\ WF_vars(MainNext) /\ WF_vars(TokNext)
        /\ (\A o \in 1..MaxObs : WF_vars(OBegin(o) \/ OGet(o) \/ ODrain(o))) /\ WF_vars(SavNext)

(* ------------------------------ properties ------------------------------ *)
NRead == IF finished \/ tpc \in {"fwdstop"} THEN cur ELSE cur + 1
BlocksRead == [i \in 1..NRead |-> i - 1]
C12Safe == /\ \A o \in Obs : ObsPrefixOK(processed[o], Len(out))
           /\ (AllDone => \A o \in Obs : ObsFinalOK(processed[o], Len(out)))
C13Safe == /\ FilePrefixOK(file, BlocksRead)
           /\ (UseSaver /\ AllDone => FileFinalOK(file, BlocksRead, fclosed))
           /\ (~UseSaver => file = <<>>)
\* C14 (and the "equal what split() returns" clause of C12): at the end the detections are the greedy
\* segmentation of exactly the blocks that were read -- as if the stream had ended there
Seg == INSTANCE SegPure
C14Safe == AllDone => (finished /\ out = Seg!SegOf(p, stream) /\ Len(stream) = NRead)
Termination == <>[]AllDone
TypeOK == /\ tpc \in {"unstarted", "begin", "poll", "read", "fwd", "fwdstop", "notify", "stopobs", "stopsaver", "joinsaver", "done"}
          /\ spc \in {"unstarted", "begin", "get", "drain", "done"}
          /\ \A o \in Obs : opc[o] \in {"unstarted", "begin", "get", "drain", "done"}
=========================================================================
