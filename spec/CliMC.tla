---------------------------- MODULE CliMC ----------------------------
(* Enumerates option vectors (every subset of at most MaxPresent options, each with each value of its
   palette) and exports, per vector, what module Cli prescribes: API keyword arguments, exit status,
   printing, files.  Also checks the field decomposition of whole milliseconds over a range with all
   carries (every multiple of a second / minute / hour +- 1).                                      *)
EXTENDS Cli, Json
CONSTANTS MaxPresent, WithFx
\* value palettes as sequences (a set cannot mix numbers, booleans and strings in TLC)
Pal == [n |-> <<1000, 3500>>, m |-> <<4000, 9000>>, s |-> <<0, 1500>>, a |-> <<500, 250, 300>>, e |-> <<40, 60>>, d |-> <<TRUE>>, R |-> <<TRUE>>,
        u |-> <<"0", "1", "mix">>, M |-> <<6000, 14500>>, r |-> <<8000, 22050>>, c |-> <<2>>, w |-> <<4>>, f |-> <<"raw", "wav">>, L |-> <<TRUE>>, q |-> <<TRUE>>,
        O |-> <<"stream">>, o |-> <<"regions">>, j |-> <<0, 2500>>,
        C |-> <<"consume">>, E |-> <<TRUE>>, G |-> <<"debug">>, D |-> <<TRUE>>, T |-> <<"raw">>, P |-> <<"image">>, I |-> <<2>>, F |-> <<256>>]
VARIABLES o
\* -R only changes the output when a remainder shorter than -n follows a cut at -m: with the synthetic audio that needs -s 0 or -d as well
\* (seeded change C15_7), so these triples are part of every tier
StrictTriples == {{"R", "m", "s"}, {"R", "m", "d"}, {"R", "m", "n"}}
\* C15: the listed options only; X04: at least one side-effect option among them
Subsets == IF WithFx THEN {S \in SUBSET (OptNames \cup FxNames) : Cardinality(S) <= MaxPresent /\ S \cap FxNames # {}}
           ELSE {S \in SUBSET OptNames : Cardinality(S) <= MaxPresent} \cup StrictTriples
Init == \E S \in Subsets : \E ix \in [S -> 1..3] : (\A k \in S : ix[k] <= Len(Pal[k])) /\ o = [k \in S |-> Pal[k][ix[k]]]
Next == UNCHANGED o
Spec == Init /\ [][Next]_o
Sane == /\ Exit(o) \in {0, 1} /\ (Exit(o) = 1 => ~Prints(o) /\ ~SavesStream(o) /\ ~JoinsEvents(o) /\ ~SavesRegions(o))
        /\ ~(SavesStream(o) /\ JoinsEvents(o))
        /\ \A k \in DOMAIN o : Eff(o, k) = o[k]
        /\ (\A k \in OptNames \ DOMAIN o : Eff(o, k) = Defaults[k])
        /\ (Exit(o) = 1 => ~RunsCommands(o) /\ ~Echoes(o) /\ ~LogsToFile(o) /\ ~Plots(o))
Export == PrintT(ToJson([opts |-> [k \in DOMAIN o |-> o[k]], present |-> DOMAIN o, kw |-> Kwargs(o), exit |-> Exit(o), prints |-> Prints(o),
                         stream |-> SavesStream(o), joins |-> JoinsEvents(o), regions |-> SavesRegions(o), outfmt |-> OutFormat(o), micopen |-> MicOpen(o)]))
\* field decomposition: for every whole-millisecond value W there is exactly one admissible field tuple
Decomp(W) == <<W \div 3600000, (W \div 60000) % 60, (W \div 1000) % 60, W % 1000>>
FieldsOK == \A base \in {0, 1000, 59000, 60000, 3599000, 3600000, 86399000, 360000000} : \A dlt \in 0..2 :
               LET W == base + dlt * 999  f == Decomp(W) IN OkFields(f[1], f[2], f[3], f[4], W)
======================================================================
