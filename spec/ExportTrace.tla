---------------------------- MODULE ExportTrace ----------------------------
(* Trace specification for Export: a recorded history of one stream-saving / event-joining worker
   (constructor, blocks, end of the thread, export_audio() calls, collection).  Every event carries the
   COMPLETE projected state after it (content of every name the worker can touch, converters started,
   result of the call); the event is accepted iff it is the named action of Export and the recorded state
   is the action's successor.  While the worker runs, the stream file's content is not compared (the cache
   decides when bytes reach the disk); its existence is.                                              *)
EXTENDS Export, Json, IOUtils, TLCExt
Traces == JsonDeserialize(IOEnv.TRACE_FILE)
VARIABLES tid, l
tvars == <<vars, tid, l>>
T == Traces[tid]
E == T.ev[l]
Rec(x) == [k |-> x[1], t |-> x[2], ids |-> x[3]]
TInit == /\ tid \in 1..Len(Traces) /\ l = 1
         /\ ext = T.ext /\ fpar = T.fpar /\ env = [t \in {"ffmpeg", "avconv", "sox"} |-> T.env[t]]
         /\ fs = [k \in Names |-> IF k < Len(T.pre) /\ T.pre[k + 1] THEN Pre(100 + k) ELSE Absent]
         /\ fmt = Guess(ext, fpar) /\ tmp = -1 /\ ph = "new" /\ written = <<>> /\ exported = FALSE /\ calls = <<>> /\ last = "none"
SameFs == \A k \in Names : IF ph' = "open" /\ k = tmp' THEN E.fs[k + 1][1] # "absent" ELSE Rec(E.fs[k + 1]) = fs'[k]
Observed == SameFs /\ E.calls = calls' /\ E.res = last'
Act == CASE E.a = "open" -> Open
         [] E.a = "write" -> Write
         [] E.a = "finish" -> Finish
         [] E.a = "export" -> (ExportWavRaw \/ ExportTools \/ ExportAgain)
         [] E.a = "collect" -> Collect
         [] OTHER -> FALSE
Step == l <= Len(T.ev) /\ l' = l + 1 /\ tid' = tid /\ Act /\ Observed
TSpec == TInit /\ [][Step]_tvars
\* the properties of Export, evaluated in every state of every accepted prefix
Good == Exact /\ KeepsAudio /\ Tidy /\ WarnIff
Mon == TLCSet(tid, IF Good THEN l ELSE 0 - l)
ASSUME \A t \in 1..Len(Traces) : TLCSet(t, 0)
Post == \A t \in 1..Len(Traces) : PrintT(ToJson(<<"TRACE", t, TLCGet(t), Len(Traces[t].ev) + 1>>))
=============================================================================
