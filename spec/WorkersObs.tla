---------------------------- MODULE WorkersObs ----------------------------
(* Judge of OBSERVED worker-pipeline runs (free observation layer): one record per controlled execution of
   the real threads, holding only what was observed at the API boundary at the end of the run --
     p         tokenizer parameters in windows + [nobs, saver, stop]
     stream    validity of every block the tokenizer read from the source (in order)
     judged    number of blocks the validator was asked about
     dets      the tokenizer worker's own detections list: <<id, first window, last window>>
     processed per observer, the ids it processed in order
     status    "done" | "deadlock" | "budget" ;  alive  number of managed threads still alive at the end
     stopped   a stop (stop_all) was requested by main
     file      block indices found in the saved stream file (-1: not aligned / unknown bytes), fvalid (readable wav, right parameters)
     extras    joined_ok / regfiles_ok / printed_ok: projections of what joiner, region saver and print worker produced
   and evaluates C12 / C13 / C14 with the shared texts of WorkersProps and SegPure.                           *)
EXTENDS WorkersProps, Json, IOUtils, TLCExt, TLC
Runs == JsonDeserialize(IOEnv.TRACE_FILE)
VARIABLES i
Init == i \in 1..Len(Runs)
Next == UNCHANGED i
Spec == Init /\ [][Next]_i
X == Runs[i]
Seg == INSTANCE SegPure
N == Len(X.dets)
DetSE == [k \in 1..N |-> [start |-> X.dets[k][2], end |-> X.dets[k][3]]]
Ended == X.status = "done" /\ X.alive = 0                         \* every worker thread terminated, nobody blocked forever
Delivered == /\ \A o \in 1..Len(X.processed) : ObsFinalOK(X.processed[o], N)     \* exactly once, in order, ids 1..n
             /\ \A k \in 1..N : X.dets[k][1] = k                                  \* ids match the worker's own list
             /\ X.judged = Len(X.stream)                                          \* every block read was analysed
             /\ DetSE = Seg!SegOf(X.p, X.stream)                                  \* = split() of exactly what was read
             /\ X.printed_ok /\ X.regfiles_ok
FileOK == X.p.saver => (X.fvalid /\ X.file = [k \in 1..Len(X.stream) |-> k - 1])
C12 == (~X.stopped) => (Ended /\ Delivered)
\* C13: the file holds exactly the blocks the tokenizer read (under every interleaving, stop or not) and the tokenizer was
\* given every block the wrapped reader produced
C13 == /\ FileOK /\ X.judged = Len(X.stream) /\ X.joined_ok /\ X.regfiles_ok
C14 == X.stopped => (Ended /\ Delivered /\ FileOK /\ X.joined_ok)
\* X03: log = sequence of <<who, id, line_ok>>; loggers = observers that write log lines (region saver, player, command)
LogPairs == [k \in 1..Len(X.log) |-> <<X.log[k][1], X.log[k][2]>>]
X03 == X.haslog => (/\ \A k \in 1..Len(X.log) : X.log[k][3] = 1
                    /\ LogOK(LogPairs, N, X.processed, {X.loggers[k] : k \in 1..Len(X.loggers)}))
\* X06 (observation): a run whose source raised -- what WorkersCrash describes: without a stop the natural end never comes when anybody
\* waits for a stop marker; with stop_all() everything ends; what was delivered before is a prefix of the detections
X06 == X.crashed => /\ \A o \in 1..Len(X.processed) : ObsPrefixOK(X.processed[o], N)
                    /\ IF X.stopped THEN Ended ELSE ((X.p.nobs > 0 \/ X.p.saver) => ~Ended)
Bit(b) == IF b THEN 0 ELSE 1
Mon == TLCSet(i, 1 + Bit(C12) + 2 * Bit(C13) + 4 * Bit(C14) + 8 * Bit(X03) + 16 * Bit(X06))
ASSUME \A t \in 1..Len(Runs) : TLCSet(t, 0)
Post == \A t \in 1..Len(Runs) : PrintT(ToJson(<<"TRACE", t, TLCGet(t), 1>>))
=============================================================================
