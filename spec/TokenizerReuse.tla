---------------------------- MODULE TokenizerReuse ----------------------------
(* C20 by self-composition: a tokenizer reused after any earlier (complete, partial, abandoned) run
   behaves like a fresh one.  Phase 1 drives one register set through an arbitrary first stream and
   abandons it at any suspension point; phase 2 re-initialises it as _reinitialize does and steps it in
   lock-step with a fresh register set on the same second stream. *)
EXTENDS TokCore, FiniteSets, TLC
CONSTANTS Max1, Max2, MinSet, MaxSet, SilSet, IMinSet, ISilSet
Params == { [min |-> mn, max |-> mx, sil |-> sl, imin |-> im, isil |-> is, strict |-> sm, drop |-> dm] :
              mn \in MinSet, mx \in MaxSet, sl \in SilSet, im \in IMinSet, is \in ISilSet, sm \in BOOLEAN, dm \in BOOLEAN }
VARIABLES p, phase, rA, rB, cur, len1, len2, same
vars == <<p, phase, rA, rB, cur, len1, len2, same>>
Init == /\ p \in {q \in Params : Accepted(q)} /\ phase = 1 /\ rA = Regs0 /\ rB = Regs0
        /\ cur = -1 /\ len1 = 0 /\ len2 = 0 /\ same = TRUE
\* phase 1: any first stream, possibly run to its end (flush), possibly abandoned mid-way
Frame1(v) == /\ phase = 1 /\ len1 < Max1 /\ rA' = Step(p, rA, cur + 1, v).r /\ cur' = cur + 1 /\ len1' = len1 + 1
             /\ UNCHANGED <<p, phase, rB, len2, same>>
Finish1  == /\ phase = 1 /\ len1 < 100 /\ len1' = 100 /\ rA' = Flush(p, rA, cur + 1).r /\ cur' = cur + 1 /\ UNCHANGED <<p, phase, rB, len2, same>>
\* start of the second use: _reinitialize on the used object, fresh object untouched; both counters restart
Reuse    == /\ phase = 1 /\ phase' = 2 /\ rA' = Reinit(rA) /\ cur' = -1 /\ UNCHANGED <<p, rB, len1, len2, same>>
Frame2(v) == /\ phase = 2 /\ len2 < Max2
             /\ LET a == Step(p, rA, cur + 1, v)  b == Step(p, rB, cur + 1, v) IN
                /\ rA' = a.r /\ rB' = b.r /\ same' = (same /\ a.tok = b.tok)
             /\ cur' = cur + 1 /\ len2' = len2 + 1 /\ UNCHANGED <<p, phase, len1>>
Finish2  == /\ phase = 2 /\ phase' = 3
             /\ LET a == Flush(p, rA, cur + 1)  b == Flush(p, rB, cur + 1) IN
                /\ rA' = a.r /\ rB' = b.r /\ same' = (same /\ a.tok = b.tok)
             /\ UNCHANGED <<p, cur, len1, len2>>
Next == (\E v \in BOOLEAN : Frame1(v) \/ Frame2(v)) \/ Finish1 \/ Reuse \/ Finish2
Spec == Init /\ [][Next]_vars
C20 == same
\* stronger, explains why: after re-initialisation only registers that are overwritten before use may differ
Relevant(r) == [st |-> r.st, buf |-> r.buf, contig |-> r.contig,
                sil |-> IF r.st = "SILENCE" THEN 0 ELSE r.sil,
                icount |-> IF r.st = "SILENCE" THEN 0 ELSE r.icount,
                startf |-> IF r.st = "SILENCE" /\ ~r.contig THEN 0 ELSE r.startf]
C20Strong == phase = 2 => Relevant(rA) = Relevant(rB)
=========================================================================
