---------------------------- MODULE TokenizerTrace ----------------------------
(* Implementation-shaped trace specification: every logged event must be the corresponding action of
   Tokenizer with the logged arguments.  Events carry all arguments, so the search is linear.
   Acceptance: register tid reaches Len(ev)+1.  Generator and callback mode traces only.        *)
EXTENDS Tokenizer, Json, IOUtils, TLCExt
Traces == JsonDeserialize(IOEnv.TRACE_FILE)
VARIABLES tid, l
tvars == <<vars, tid, l>>
Ev == Traces[tid].ev
TInit == /\ tid \in 1..Len(Traces) /\ l = 1 /\ p = Traces[tid].p
         /\ stream = <<>> /\ out = <<>> /\ nread = 0 /\ eos = 0 /\ late = 0 /\ done = FALSE
         /\ pc = "read" /\ r = Regs0 /\ pending = NoTok
Is(e) == l <= Len(Ev) /\ Ev[l].e = e /\ l' = l + 1 /\ tid' = tid
TR == Is("R") /\ ReadFrame(Ev[l].v)
TV == Is("V") /\ pc = "proc" /\ Ev[l].v = stream[nread]
      /\ (SilSkip \/ SilStart \/ PNValid \/ PNInvalid \/ NValid \/ NInvalid \/ PSValid \/ PSInvalid)
TT == Is("T") /\ pc = "emit" /\ pending.start = Ev[l].s /\ pending.end = Ev[l].t /\ pending.frames = Ev[l].fr /\ Emit
TEOS == Is("EOS") /\ ReadEOS
TEND == Is("END") /\ pc = "done" /\ UNCHANGED vars
TNext == TR \/ TV \/ TT \/ TEOS \/ TEND
TSpec == TInit /\ [][TNext]_tvars
Progress == TLCSet(tid, l)
ASSUME \A t \in 1..Len(Traces) : TLCSet(t, 0)
Post == \A t \in 1..Len(Traces) : PrintT(ToJson(<<"TRACE", t, TLCGet(t), Len(Traces[t].ev) + 1>>))
=============================================================================
