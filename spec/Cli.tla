---------------------------- MODULE Cli ----------------------------
(* The command line (cmdline.py:37-443, cmdline_util.py:16-155) as a function from the set of options given
   on the command line to (a) the keyword arguments the API must be called with to obtain the same
   detections -- every option absent from the command line takes its DOCUMENTED default (note: -a defaults
   to 0.01 s, not the API's 0.05) --, (b) the exit status, (c) whether detection lines are printed and
   which files are written.  Durations are integers in units of 0.1 ms (as in module Durations).
   An option vector o is a function from option names (a subset of OptNames) to values.              *)
EXTENDS Naturals, Integers, Sequences, FiniteSets, TLC
OptNames == {"n", "m", "s", "a", "e", "d", "R", "u", "M", "r", "c", "w", "f", "L", "q", "O", "o", "j"}
\* X04 (beyond the list): options whose effect is a side effect -- C = -C/--command, E = -E/--echo, G = --debug-file, D = -D/--debug,
\* T = -T/--output-format, P = --save-image
FxNames == {"C", "E", "G", "D", "T", "P", "I", "F"}        \* I = -I/--input-device-index, F = -F/--audio-frame-per-buffer (microphone input)
NoVal == "none"
Defaults == [n |-> 2000, m |-> 50000, s |-> 3000, a |-> 100, e |-> 50, d |-> FALSE, R |-> FALSE, u |-> NoVal, M |-> -1,
             r |-> 16000, c |-> 1, w |-> 2, f |-> NoVal, L |-> FALSE, q |-> FALSE, O |-> NoVal, o |-> NoVal, j |-> -1,
             C |-> NoVal, E |-> FALSE, G |-> NoVal, D |-> FALSE, T |-> NoVal, P |-> NoVal, I |-> -1, F |-> 1024]
Eff(o, k) == IF k \in DOMAIN o THEN o[k] ELSE Defaults[k]
\* what the API must be given (long names); M = -1 stands for "no max_read"
Kwargs(o) == [min_dur |-> Eff(o, "n"), max_dur |-> Eff(o, "m"), max_silence |-> Eff(o, "s"), analysis_window |-> Eff(o, "a"),
              energy_threshold |-> Eff(o, "e"), drop_trailing_silence |-> Eff(o, "d"), strict_min_dur |-> Eff(o, "R"),
              use_channel |-> Eff(o, "u"), max_read |-> Eff(o, "M"), sampling_rate |-> Eff(o, "r"), channels |-> Eff(o, "c"),
              sample_width |-> Eff(o, "w"), audio_format |-> Eff(o, "f"), large_file |-> Eff(o, "L")]
\* -j without -O: message on stderr, exit status 1, nothing else happens
Exit(o) == IF "j" \in DOMAIN o /\ "O" \notin DOMAIN o THEN 1 ELSE 0
Prints(o) == Exit(o) = 0 /\ ~Eff(o, "q")
SavesStream(o) == Exit(o) = 0 /\ "O" \in DOMAIN o /\ "j" \notin DOMAIN o       \* -O alone: the whole stream that was read
JoinsEvents(o) == Exit(o) = 0 /\ "O" \in DOMAIN o /\ "j" \in DOMAIN o           \* -O with -j: events joined by j seconds of silence
SavesRegions(o) == Exit(o) = 0 /\ "o" \in DOMAIN o                              \* one file per detection
\* X04: side effects.  Nothing happens when the arguments are rejected (exit status 1).
RunsCommands(o) == Exit(o) = 0 /\ "C" \in DOMAIN o       \* one command per detection, in order, {file} = a wav file holding that detection
Echoes(o) == Exit(o) = 0 /\ "E" \in DOMAIN o             \* every detection is played, in order
LogsToFile(o) == Exit(o) = 0 /\ "G" \in DOMAIN o         \* the debug file holds the processing log (see WorkersProps!LogOK)
LogsToStderr(o) == Exit(o) = 0 /\ "D" \in DOMAIN o
\* who writes log lines: 0 = the tokenizer ([DET]), 1 = region saver ([SAVE]), 2 = player ([PLAY]), 3 = command ([COMMAND])
LogWriters(o) == (IF "o" \in DOMAIN o THEN {1} ELSE {}) \cup (IF "E" \in DOMAIN o THEN {2} ELSE {}) \cup (IF "C" \in DOMAIN o THEN {3} ELSE {})
Plots(o) == Exit(o) = 0 /\ "P" \in DOMAIN o               \* plot() gets the whole stream that was read, the API's detections, the -e threshold, the image name
\* Deviation of the code, named rather than idealised away (observation O12): with -O AND -j the stream is not recorded (make_kwargs switches
\* recording off whenever -O is given, counting on the stream saver to hold the data, but with -j the saver is an observer, not a reader), so
\* the plotting step finds nothing to rewind and main() ends with an AttributeError -- after the files have been written.
PlotCrashes(o) == Exit(o) = 0 /\ "P" \in DOMAIN o /\ "O" \in DOMAIN o /\ "j" \in DOMAIN o
\* no input argument = the microphone: the device is opened with the -r / -c / -w values, the device index of -I (none by default) and -F frames per buffer
MicOpen(o) == <<Eff(o, "r"), Eff(o, "c"), Eff(o, "w"), Eff(o, "I"), Eff(o, "F")>>
OutFormat(o) == IF "T" \in DOMAIN o THEN o["T"] ELSE "wav"   \* of the -O / -o files (their names end in .wav in the harness)
(* time formats: a printed time is parsed into whole milliseconds W; the exact instant is num/den MILLISECONDS
   (for a detection at sample f of a stream at rate r: num = 1000 f, den = r) *)
Abs(a) == IF a < 0 THEN -a ELSE a
\* %S: three decimals = nearest millisecond (ties and float noise: a twentieth of a millisecond of slack)
OkS(W, num, den) == 20 * Abs(W * den - num) <= 11 * den
\* %I and %h/%m/%s/%i: WHOLE milliseconds: never above the instant, less than one below (int(t*1000) on a float may sit one below an exact integer)
OkI(W, num, den) == W * den <= num /\ (num - W * den < den \/ (num % den = 0 /\ num - W * den = den))
\* fields h, m, s, i recompose to W with minutes and seconds below 60 and milliseconds below 1000
OkFields(h, mi, s, i, W) == mi < 60 /\ s < 60 /\ i < 1000 /\ h >= 0 /\ mi >= 0 /\ s >= 0 /\ i >= 0 /\ W = ((h * 60 + mi) * 60 + s) * 1000 + i
====================================================================
