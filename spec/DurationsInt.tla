---------------------------- MODULE DurationsInt ----------------------------
(* The arithmetic core of C06 for ALL positive durations and windows -- no bound: the formulas of module Durations
   (copied verbatim, Apalache needs typed state variables) against the wording of the property, discharged symbolically by
   Apalache/Z3 in one step (length 0).  Duration d in units of 1/U s, window wn/wd seconds.
   Lemma1 (analysis_window given in units, wd = U): MinLen is the smallest count whose duration covers d, MaxLen the largest
   count not exceeding d, and a duration that is a whole number of windows means exactly that number.
   Lemma2 (any rational window wn/wd, e.g. block_size/rate of an AudioReader): the same two characterisations.          *)
EXTENDS Integers
VARIABLES
  \* @type: Int;
  d,
  \* @type: Int;
  wn,
  \* @type: Int;
  wd
U == 10000
CeilDiv(a, b) == (a + b - 1) \div b
MinLen(x, n, dd) == CeilDiv(x * dd, U * n)
MaxLen(x, n, dd) == (x * dd) \div (U * n)
Init == d \in Int /\ wn \in Int /\ wd \in Int /\ d >= 1 /\ wn >= 1 /\ wd >= 1
Next == UNCHANGED <<d, wn, wd>>
Lemma1 == /\ MinLen(d, wn, U) * wn >= d /\ (MinLen(d, wn, U) - 1) * wn < d
          /\ MaxLen(d, wn, U) * wn <= d /\ (MaxLen(d, wn, U) + 1) * wn > d
          /\ (d % wn = 0 => MinLen(d, wn, U) = d \div wn /\ MaxLen(d, wn, U) = d \div wn)
Lemma2 == /\ MinLen(d, wn, wd) * wn * U >= d * wd /\ (MinLen(d, wn, wd) - 1) * wn * U < d * wd
          /\ MaxLen(d, wn, wd) * wn * U <= d * wd /\ (MaxLen(d, wn, wd) + 1) * wn * U > d * wd
\* non-vacuity: this one is FALSE (a duration that is a whole number of windows is covered exactly) and Apalache must say so
NotStrict == MinLen(d, wn, U) * wn > d
=============================================================================
