---------------------------- MODULE DispatchMC ----------------------------
EXTENDS Dispatch, Json
Export == PrintT(ToJson([case |-> c, out |-> Outcome(c)]))
===========================================================================
