---------------------------- MODULE EnergyTrace ----------------------------
(* Judge for observed verdicts of AudioEnergyValidator.is_valid: each case logs the raw window bytes, the
   sample width, channel count, selector, threshold (10*k dB) and what the code answered ("T"/"F"/error
   class).  TLC decodes the bytes itself (Energy!Window) and recomputes the verdict.
   Case: [b (bytes as 0..255), sw, c, selk ("name"|"idx"), name, idx, k, got]                      *)
EXTENDS Energy, Json, IOUtils, TLCExt
Cases == JsonDeserialize(IOEnv.TRACE_FILE)
VARIABLES i
Init == i \in 1..Len(Cases)
Next == UNCHANGED i
Spec == Init /\ [][Next]_i
X == Cases[i]
Want == LET w == Window(X.b, X.sw, X.c) IN IF X.selk = "name" THEN VerdictName(w, X.name, X.k) ELSE VerdictIdx(w, X.idx, X.k)
Mon == TLCSet(i, IF Want = X.got THEN 1 ELSE 2)
ASSUME \A t \in 1..Len(Cases) : TLCSet(t, 0)
Post == \A t \in 1..Len(Cases) : PrintT(ToJson(<<"TRACE", t, TLCGet(t), 1>>))
=============================================================================
