---------------------------- MODULE TokenizerProps ----------------------------
(* Observation layer of the stream tokenizer: ONLY what the property statements C01-C04, C08 talk
   about.  Both the implementation-shaped specification (Tokenizer.tla, leg M) and the free
   observation trace specification (TokenizerObsTrace.tla, legs R/T) EXTEND this module, so the
   formula TLC proves about the design is literally the monitor evaluated on observed executions.

   p      : parameter record [min, max, sil, imin, isil, strict, drop] (all accepted by the constructor)
   stream : validity of every frame the source has handed out so far (stream[k+1] = frame k)
   out    : tokens handed to the consumer so far; each is
              [frames |-> <<index of each frame object>>, start, end,
               at |-> index of the last source read (a frame, or the end-of-stream request) that had
                      happened when the consumer received the token,
               fl |-> number of end-of-stream requests that had happened by then]
   nread  : frames handed out by the source;  eos : end-of-stream requests answered by the source
   late   : frames the source was asked for after it had already signalled end of stream
   done   : the run is over (generator exhausted / tokenize() returned)                              *)
EXTENDS Naturals, Integers, Sequences, FiniteSets, TLC
VARIABLES p, stream, out, nread, eos, late, done
obsvars == <<p, stream, out, nread, eos, late, done>>

N == Len(stream)
TLen(t) == Len(t.frames)
Valid(k) == k >= 0 /\ k < Len(stream) /\ stream[k + 1]     \* total: positions outside the stream are "not valid"
Min2(a, b) == IF a < b THEN a ELSE b
Max2(a, b) == IF a > b THEN a ELSE b
SetMax(S) == CHOOSE x \in S : \A y \in S : y <= x
SetMin(S) == CHOOSE x \in S : \A y \in S : x <= y

\* token i is the immediate continuation of a token that was cut at max_length
IsCont(i) == i > 1 /\ TLen(out[i-1]) = p.max /\ out[i-1].end + 1 = out[i].start

(* C01 -- exact, ordered, non-overlapping slices *)
C01Tok(i) == LET t == out[i] IN
          /\ TLen(t) >= 1 /\ t.end - t.start + 1 = TLen(t) /\ 0 <= t.start /\ t.start <= t.end /\ t.end < N
          /\ \A k \in 1..TLen(t) : t.frames[k] = t.start + k - 1
          /\ (i > 1 => out[i-1].end < t.start)
C01 == \A i \in 1..Len(out) : C01Tok(i)

(* C02 -- length bounds (the constructor part is Accepted(q) in TokCore) *)
C02Tok(i) == TLen(out[i]) <= p.max /\ (TLen(out[i]) < p.min => (~p.strict /\ IsCont(i)))
C02 == \A i \in 1..Len(out) : C02Tok(i)

(* C03 -- silence tolerance.  A run of invalid frames is followed across cuts between a token cut at
   max_length and its immediate continuation. *)
MaxRun == IF p.imin > 1 THEN Max2(p.sil, p.isil) ELSE p.sil
\* frame k lies in token j and tokens j+1..i are all immediate continuations (so j..i is one chain): declarative form ...
InChainDecl(k, i) == \E j \in 1..i : out[j].start <= k /\ k <= out[j].end /\ \A m \in (j+1)..i : IsCont(m)
\* ... and the equivalent form the monitors evaluate (linear instead of quadratic in the number of tokens): the chain of token i
\* starts at the first token from which every later one up to i is an immediate continuation, and a chain is contiguous
RECURSIVE ChainStart(_)
ChainStart(i) == IF IsCont(i) THEN ChainStart(i - 1) ELSE i
InChain(k, i) == out[ChainStart(i)].start <= k /\ k <= out[i].end
InChainSame == C01 => \A i \in 1..Len(out) : \A k \in 0..(N - 1) : InChain(k, i) = InChainDecl(k, i)
C03Tok(i) == LET t == out[i] IN
          /\ \E k \in t.start..t.end : Valid(k)
          /\ (~IsCont(i) => Valid(t.start))
          /\ (p.drop /\ TLen(t) < p.max => Valid(t.end))
          /\ \A a \in t.start..t.end : LET lo == a - MaxRun IN
               ~( lo >= 0 /\ (\A k \in lo..a : ~Valid(k)) /\ (\A k \in lo..a : InChain(k, i)) )
\* guarded by C01: C03 reads stream[] at the token's positions, which only makes sense for exact slices
C03 == C01 => \A i \in 1..Len(out) : C03Tok(i)

(* C04 -- completeness: declarative greedy segmentation, written without reference to the automaton *)
RECURSIVE StretchEnd(_)
\* last valid frame of the maximal stretch (gaps <= sil) that contains valid frame e
StretchEnd(e) == LET nxt == {k \in (e+1)..Min2(e + p.sil + 1, N - 1) : Valid(k)} IN
                 IF nxt = {} THEN e ELSE StretchEnd(SetMax(nxt))
\* j-th piece of the extended stretch s..x
PieceTok(s, x, j) == LET a == s + j * p.max  b == Min2(a + p.max - 1, x)  vs == {k \in a..b : Valid(k)} IN
   IF b - a + 1 = p.max THEN <<[start |-> a, end |-> b]>>
   ELSE IF vs = {} THEN <<>>
   ELSE LET b2 == IF p.drop THEN SetMax(vs) ELSE b IN
        IF (b2 - a + 1 >= p.min) \/ (~p.strict /\ j > 0) THEN <<[start |-> a, end |-> b2]>> ELSE <<>>
RECURSIVE Pieces(_, _, _)
Pieces(s, x, j) == IF s + j * p.max > x THEN <<>> ELSE PieceTok(s, x, j) \o Pieces(s, x, j + 1)
\* first valid frame at or after i (N if there is none): a linear scan (CHOOSE-the-minimum of a set is quadratic in TLC)
RECURSIVE FirstValid(_)
FirstValid(i) == IF i >= N THEN N ELSE IF Valid(i) THEN i ELSE FirstValid(i + 1)
RECURSIVE Seg(_)
Seg(i) == LET s == FirstValid(i) IN IF s >= N THEN <<>>
          ELSE LET e == StretchEnd(s)  x == Min2(e + p.sil, N - 1) IN
               Pieces(s, x, 0) \o Seg(x + 1)
OutSE == [i \in 1..Len(out) |-> [start |-> out[i].start, end |-> out[i].end]]
\* (a run that is over has asked the source for more until it answered end-of-stream: nothing after a falsy / odd frame is silently dropped)
C04 == (done /\ p.imin <= 1) => (eos >= 1 /\ OutSE = Seg(0))

\* Corollaries named in the statement, as separate formulas so that a failure names the clause.
\* (The statement's "every valid frame of a stretch at least min_length long lies inside some token"
\* is subject to the length rule for the final partial piece, which in strict mode may drop a short
\* remainder; the unconditional reading below is therefore stated for the non-strict mode.)
Covered(k) == \E i \in 1..Len(out) : out[i].start <= k /\ k <= out[i].end
RECURSIVE StretchBegin(_)
StretchBegin(s) == LET prv == {k \in Max2(0, s - p.sil - 1)..(s - 1) : Valid(k)} IN
                   IF prv = {} THEN s ELSE StretchBegin(SetMin(prv))
\* stretch by stretch (StretchEnd once per stretch: evaluating it for every frame is quadratic in the length of a stretch, and a stream
\* with a generous silence tolerance can be ONE stretch of ten thousand frames): s is the first valid frame of a maximal stretch
RECURSIVE CoverFrom(_)
CoverFrom(i) == LET s == FirstValid(i) IN
                IF s >= N THEN TRUE
                ELSE LET e == StretchEnd(s) IN
                     /\ (e - s + 1 >= p.min => \A k \in s..e : Valid(k) => Covered(k))
                     /\ CoverFrom(e + 1)
C04Cover == (done /\ p.imin <= 1 /\ ~p.strict) => CoverFrom(0)
\* the same clause frame by frame, as the statement words it; used on the model-checking grids, where streams are short
C04CoverDecl == (done /\ p.imin <= 1 /\ ~p.strict) =>
              \A k \in 0..(N-1) : (Valid(k) /\ StretchEnd(k) - StretchBegin(k) + 1 >= p.min) => Covered(k)
C04First == (done /\ p.imin <= 1 /\ C01) =>
              \A i \in 1..Len(out) : ~IsCont(i) =>
                 Valid(out[i].start) /\ \A k \in Max2(0, out[i].start - p.sil - 1)..(out[i].start - 1) : ~Valid(k)
C04NoInvent == (done /\ p.imin <= 1 /\ C01) =>
              \A i \in 1..Len(out) : \A k \in out[i].start..out[i].end : \E j \in Max2(0, k - p.sil)..k : Valid(j)

(* C08 -- online delivery.  at/fl are observed at the moment of hand-over; late counts frame reads
   that happened after the source had already answered an end-of-stream request. *)
C08Tok(i) == LET t == out[i] IN
          IF t.fl = 0 THEN \/ (TLen(t) = p.max /\ t.at = t.end)                    \* cut: handed over at the frame completing max_length
                           \/ /\ TLen(t) < p.max /\ t.end < t.at /\ t.at <= t.end + p.sil + 1 /\ t.at < N
                              /\ \A k \in (t.end + 1)..t.at : ~Valid(k)             \* ... or at the first frame of excess silence
          ELSE t.fl = 1 /\ t.at = N /\ i = Len(out)                                \* ... or at the end-of-stream flush (last token)
C08 == /\ \A i \in 1..Len(out) : C08Tok(i)
       /\ eos <= 1 /\ (done => eos = 1) /\ late = 0
=============================================================================
