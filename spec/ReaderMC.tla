---------------------------- MODULE ReaderMC ----------------------------
EXTENDS Reader, Json
\* every maximal operation history of the bound, with the values the specification says are returned
\* model-checking economy only: histories with two data probes in a row, or with more than one failing
\* rewind / data probe on a non-recording reader, add nothing
Useful == /\ (~opened /\ ~HasClose => Len(log) <= 2)      \* at most two reads before open()
          /\ Cardinality({i \in 1..Len(log) : log[i].op = "close"}) <= 1
          \* after the close: at most one read on the closed reader, then the rewind (or the end of the history)
          /\ \A i \in 1..Len(log) : log[i].op = "close" => /\ (i + 1 <= Len(log) => log[i + 1].op \in {"read", "rewind"})
                                                            /\ \A j \in 1..(i - 1) : log[j].op \notin {"rewind", "data"}        \* before the first rewind, after at least one read
                                                            /\ \E jj \in 1..(i - 1) : log[jj].op = "read" /\ log[jj].k = "blk"
                                                            /\ (i + 2 <= Len(log) => log[i + 1].op = "rewind" \/ log[i + 2].op = "rewind")
          /\ \A i \in 1..(Len(log) - 1) : ~(log[i].op = "data" /\ log[i+1].op = "data")
          /\ (~c.rec => Cardinality({i \in 1..Len(log) : log[i].op = "rewind"}) <= 1 /\ Cardinality({i \in 1..Len(log) : log[i].op = "data"}) <= 1)
UsefulNoClose == Useful /\ ~HasClose            \* the large thorough bound is explored without close(); close() gets a bound of its own
Export == (Len(log) = MaxOps) => PrintT(ToJson([c |-> c, log |-> log, closed |-> ~StartedOpen]))
=========================================================================
