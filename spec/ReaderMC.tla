---------------------------- MODULE ReaderMC ----------------------------
EXTENDS Reader, Json
\* every maximal operation history of the bound, with the values the specification says are returned
\* model-checking economy only: histories with two data probes in a row, or with more than one failing
\* rewind / data probe on a non-recording reader, add nothing
Useful == /\ (~opened => Len(log) <= 2)      \* at most two reads before open()
          /\ \A i \in 1..(Len(log) - 1) : ~(log[i].op = "data" /\ log[i+1].op = "data")
          /\ (~c.rec => Cardinality({i \in 1..Len(log) : log[i].op = "rewind"}) <= 1 /\ Cardinality({i \in 1..Len(log) : log[i].op = "data"}) <= 1)
Export == (Len(log) = MaxOps) => PrintT(ToJson([c |-> c, log |-> log, closed |-> ~opened]))
=========================================================================
