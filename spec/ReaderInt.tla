---------------------------- MODULE ReaderInt ----------------------------
(* Integer abstraction of the AudioReader framing (one pass, no rewind) for UNBOUNDED reasoning with Apalache: a block is
   abstracted to the half-open interval [lo, hi) of the visible samples it holds (lo = hi = -1: None).  Parameters are
   symbolic: source length N, block size B >= 1, hop H with 1 <= H <= B (H = B: fixed-size reader, H < B: overlap reader),
   limit L (-1: no max_read).  The machine is the wrapper stack of module Reader with its sequences replaced by counters
   (samples consumed, overlap-cache length, generator phase); Safe says that the k-th read returns exactly the interval the
   statement of C10 gives in closed form (Reader!Expected) -- for ALL N, B, H, L and ANY number of reads.
   IndInv is inductive (Init => IndInv, IndInv /\ Next => IndInv') and implies Safe.                                      *)
EXTENDS Integers
CONSTANTS
  \* @type: Int;
  N,
  \* @type: Int;
  B,
  \* @type: Int;
  H,
  \* @type: Int;
  L
VARIABLES
  \* @type: Int;
  k,
  \* @type: Int;
  spos,
  \* @type: Int;
  oc,
  \* @type: Str;
  ph,
  \* @type: Int;
  lo,
  \* @type: Int;
  hi
CInit == N \in Int /\ B \in Int /\ H \in Int /\ L \in Int /\ N >= 0 /\ B >= 1 /\ H >= 1 /\ H <= B /\ L >= -1
Min2(x, y) == IF x < y THEN x ELSE y
Max2(x, y) == IF x > y THEN x ELSE y
V == IF L < 0 THEN N ELSE Min2(N, L)                     \* visible samples
Init == k = 0 /\ spos = 0 /\ oc = 0 /\ ph = "init" /\ lo = -1 /\ hi = -1
\* limiter + source: a request for q samples hands out min(q, visible - consumed) samples, none if that is not positive
Take(q) == Min2(q, V - spos)
None == lo' = -1 /\ hi' = -1
ReadFixed == /\ H = B /\ k' = k + 1 /\ ph' = ph /\ oc' = oc
             /\ IF Take(B) <= 0 THEN None /\ spos' = spos
                ELSE lo' = spos /\ hi' = spos + Take(B) /\ spos' = spos + Take(B)
ReadOvInit == /\ H < B /\ ph = "init" /\ k' = k + 1
              /\ IF Take(B) <= 0 THEN None /\ spos' = spos /\ ph' = "dead" /\ oc' = 0
                 ELSE lo' = spos /\ hi' = spos + Take(B) /\ spos' = spos + Take(B) /\ ph' = "run" /\ oc' = Max2(Take(B) - H, 0)
ReadOvRun == /\ H < B /\ ph = "run" /\ k' = k + 1 /\ ph' = ph
             /\ IF Take(H) <= 0 THEN None /\ spos' = spos /\ oc' = oc
                ELSE lo' = spos - oc /\ hi' = spos + Take(H) /\ spos' = spos + Take(H) /\ oc' = Max2(oc + Take(H) - H, 0)
ReadOvDead == /\ H < B /\ ph = "dead" /\ k' = k + 1 /\ ph' = ph /\ None /\ spos' = spos /\ oc' = oc
Next == ReadFixed \/ ReadOvInit \/ ReadOvRun \/ ReadOvDead
\* ---- the statement's closed form for the k-th read (Reader!Expected with intervals instead of slices)
ExpLo(j) == IF H = B THEN (IF (j - 1) * B >= V THEN -1 ELSE (j - 1) * B)
            ELSE IF j = 1 THEN (IF V <= 0 THEN -1 ELSE 0)
            ELSE IF (j - 2) * H + B < V THEN (j - 1) * H ELSE -1
ExpHi(j) == IF H = B THEN (IF (j - 1) * B >= V THEN -1 ELSE Min2(j * B, V))
            ELSE IF j = 1 THEN (IF V <= 0 THEN -1 ELSE Min2(B, V))
            ELSE IF (j - 2) * H + B < V THEN Min2((j - 1) * H + B, V) ELSE -1
Safe == k >= 1 => (lo = ExpLo(k) /\ hi = ExpHi(k))
\* ---- inductive invariant
TypeOK == k >= 0 /\ spos >= 0 /\ spos <= V /\ oc >= 0 /\ ph \in {"init", "run", "dead"}
Shape == /\ (H = B => ph = "init" /\ spos = Min2(V, k * B))
         /\ (H < B /\ ph = "init" => k = 0 /\ spos = 0)
         /\ (H < B /\ ph = "dead" => k >= 1 /\ V = 0 /\ spos = 0)
         /\ (H < B /\ ph = "run" => /\ k >= 1 /\ V >= 1
                                   /\ \/ (spos = B + (k - 1) * H /\ spos <= V /\ oc = B - H)          \* every block so far was full
                                      \/ (spos = V /\ B + (k - 1) * H >= V))                            \* the stream is exhausted
IndInv == TypeOK /\ Shape /\ Safe
IndInit == k \in Int /\ spos \in Int /\ oc \in Int /\ ph \in {"init", "run", "dead"} /\ lo \in Int /\ hi \in Int /\ IndInv
\* non-vacuity: FALSE (blocks are not always full) and Apalache must say so
AlwaysFull == (k >= 1 /\ lo >= 0) => hi - lo = B
=============================================================================
