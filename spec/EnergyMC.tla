---------------------------- MODULE EnergyMC ----------------------------
(* Enumerates every window of the bound (C channels x n samples over a palette of sample values; the
   window is filled one sample per action so that all TLC workers share the load) and checks what C07
   concludes: monotonicity in the threshold, any = maximum over channels, negative indices, errors.
   Every complete window is exported with its verdict vectors: one implementation test per case.    *)
EXTENDS Energy, Json, SequencesExt
CONSTANTS Palette, MaxN, MaxC, Ks
PaletteSmall == {-100, -10, -3, -1, 0, 1, 3, 10, 100}
PaletteBig == {-1000, -101, -100, -11, -10, -3, -1, 0, 1, 3, 10, 11, 100, 101, 1000}
KsDef == {-21, -20, -9, -2, 0, 1, 2, 3, 4, 5, 6}
VARIABLES shape, vals        \* shape = <<C, n>>, vals = samples filled so far (interleaved order)
vars == <<shape, vals>>
Init == shape \in {<<C, n>> : C \in 1..MaxC, n \in 1..MaxN} /\ vals = <<>>
Full == Len(vals) = shape[1] * shape[2]
Fill == ~Full /\ \E x \in Palette : vals' = Append(vals, x) /\ UNCHANGED shape
Done == Full /\ UNCHANGED vars
Next == Fill \/ Done
Spec == Init /\ [][Next]_vars
win == Deinterleave(vals, shape[1])
Mono == Full => \A k1, k2 \in Ks : k1 <= k2 =>
          /\ \A nm \in {"any", "mix"} : VerdictName(win, nm, k2) = "T" => VerdictName(win, nm, k1) = "T"
          /\ \A ix \in {0, -1} : VerdictIdx(win, ix, k2) = "T" => VerdictIdx(win, ix, k1) = "T"
AnyIsMax == Full => \A k \in Ks : VerdictName(win, "any", k) = "T" <=> \E c \in 0..(Len(win) - 1) : VerdictIdx(win, c, k) = "T"
Aliases == Full => \A k \in Ks : /\ VerdictName(win, "none", k) = VerdictName(win, "any", k)
                                  /\ VerdictName(win, "avg", k) = VerdictName(win, "mix", k)
                                  /\ VerdictName(win, "average", k) = VerdictName(win, "mix", k)
NegIdx == Full /\ Len(win) > 1 => \A k \in Ks : \A c \in 1..Len(win) : VerdictIdx(win, -c, k) = VerdictIdx(win, Len(win) - c, k)
OutOfRange == Full /\ Len(win) > 1 => \A k \in Ks : VerdictIdx(win, Len(win), k) = "ValueError" /\ VerdictIdx(win, -Len(win) - 1, k) = "ValueError"
                                                    /\ VerdictName(win, "bogus", k) = "ValueError"
Mono1 == Full /\ Len(win) = 1 => \A k \in Ks : VerdictName(win, "mix", k) = VerdictName(win, "any", k) /\ VerdictIdx(win, 5, k) = VerdictName(win, "any", k)
Floor == Full /\ (\A i \in 1..Len(vals) : vals[i] = 0) => \A k \in Ks : VerdictName(win, "any", k) = B2S(k <= -20)
KSeq == SetToSortSeq(Ks, LAMBDA a, b : a < b)
Export == Full => PrintT(ToJson([c |-> shape[1], v |-> vals, ks |-> KSeq,
                                 any |-> [i \in 1..Len(KSeq) |-> VerdictName(win, "any", KSeq[i])],
                                 mix |-> [i \in 1..Len(KSeq) |-> VerdictName(win, "mix", KSeq[i])],
                                 first |-> [i \in 1..Len(KSeq) |-> VerdictIdx(win, 0, KSeq[i])],
                                 last |-> [i \in 1..Len(KSeq) |-> VerdictIdx(win, -1, KSeq[i])]]))
=========================================================================
