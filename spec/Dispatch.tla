---------------------------- MODULE Dispatch ----------------------------
(* Beyond the list (X05): the decision tables of auditok/io.py, transcribed --
     _get_audio_parameters (io.py:108-153): long name wins over short name whenever the long KEY is present
       (even with value None); a parameter is valid iff it is a positive int;
     AudioSource.__init__ (io.py:174-188): the sample width must be 1, 2 or 4;
     check_audio_data (io.py:64-71): in-memory data must be a whole number of samples;
     _guess_audio_format (io.py:74-105): explicit format, else extension, lower-cased, "wave" = "wav", else nothing;
     get_audio_source (io.py:768-819) / from_file (io.py:952-1023): "-" = standard input, bytes = buffer, None =
       microphone, anything else a file: raw needs the parameters, wav carries them, every other format needs
       pydub (absent here) and cannot be read lazily;
     to_file (io.py:1124-1170): no format / raw = raw bytes (no parameters needed); every other format needs the
       parameters FIRST (so a missing parameter is reported even for an unsupported format), wav is written, the
       rest needs pydub.
   A case is a record chosen by Init; Outcome(c) is what the call must do: the class of the source returned and
   its parameters, or the exception class.  TLC enumerates every case of the grid and exports the table; the
   harness executes each row.                                                                            *)
EXTENDS Naturals, Sequences, FiniteSets, TLC
PV == {"absent", "none", "ok", "ok2", "zero", "neg", "str", "flt", "odd"}      \* how a parameter is passed under one name
Exts == {"", "raw", "wav", "WAV", "wave", "ogg", "Raw"}
Fmts == {"none", "raw", "wav", "wave", "RAW", "WAVE", "ogg"}
Params == {"sr", "sw", "ch"}
Lower(s) == CASE s = "WAV" -> "wav" [] s = "WAVE" -> "wave" [] s = "RAW" -> "raw" [] s = "Raw" -> "raw" [] OTHER -> s
Guess(ext, f) == LET g == IF f = "none" THEN (IF ext = "" THEN "none" ELSE Lower(ext)) ELSE Lower(f) IN IF g = "wave" THEN "wav" ELSE g
Chosen(l, s) == IF l # "absent" THEN l ELSE s
PosInt(v) == v \in {"ok", "ok2", "odd"}
Val(p, v) == CASE v = "ok" -> (CASE p = "sr" -> 16000 [] p = "sw" -> 2 [] OTHER -> 1)
               [] v = "ok2" -> (CASE p = "sr" -> 8000 [] p = "sw" -> 4 [] OTHER -> 2)
               [] OTHER -> 3
\* c.long, c.short : Params -> PV
Eff(c, p) == Chosen(c.long[p], c.short[p])
ParamsOK(c) == \A p \in Params : PosInt(Eff(c, p))
WidthOK(c) == Eff(c, "sw") # "odd"
Resolved(c) == [p \in Params |-> Val(p, Eff(c, p))]
FileParams == [sr |-> 44100, sw |-> 2, ch |-> 2]            \* what the harness writes into wav headers: must win over the keyword arguments
Err(e) == [cls |-> "none", err |-> e, par |-> [sr |-> 0, sw |-> 0, ch |-> 0]]
Ok(cls, par) == [cls |-> cls, err |-> "none", par |-> par]
NeedParams(c, cls, aligned) == IF ~ParamsOK(c) THEN Err("AudioParameterError")
                               ELSE IF ~WidthOK(c) THEN Err("AudioParameterError")
                               ELSE IF ~aligned THEN Err("AudioParameterError")
                               ELSE Ok(cls, Resolved(c))
\* get_audio_source(input, audio_format=, large_file=, **params)
Source(c) ==
  CASE c.inp = "stdin" -> NeedParams(c, "StdinAudioSource", TRUE)
    [] c.inp = "bytes" -> NeedParams(c, "BufferAudioSource", c.aligned)
    [] c.inp = "mic" -> NeedParams(c, "PyAudioSource", TRUE)
    [] OTHER -> LET f == Guess(c.ext, c.fpar) IN
                CASE f = "raw" -> (IF c.large THEN NeedParams(c, "RawAudioSource", TRUE) ELSE NeedParams(c, "BufferAudioSource", c.aligned))
                  [] f = "wav" -> (IF c.large THEN Ok("WaveAudioSource", FileParams) ELSE Ok("BufferAudioSource", FileParams))
                  [] OTHER -> Err("AudioIOError")                  \* lazy reading of other formats is refused; pydub is absent
\* to_file(data, filename, audio_format=, **params): what ends up on disk
Save(c) == LET f == Guess(c.ext, c.fpar) IN
           IF f \in {"none", "raw"} THEN Ok("rawfile", [sr |-> 0, sw |-> 0, ch |-> 0])
           ELSE IF ~ParamsOK(c) THEN Err("AudioParameterError")
           ELSE IF f = "wav" THEN Ok("wavfile", Resolved(c))
           ELSE Err("AudioIOError")
Outcome(c) == IF c.op = "source" THEN Source(c) ELSE Save(c)

\* ---- the grid: one parameter passed in every (long, short) combination, the other two valid under either name
AllOk(nm) == [p \in Params |-> IF nm = "long" THEN "ok" ELSE "absent"]
Vary(p, l, s, nm) == [long |-> [AllOk(nm) EXCEPT ![p] = l], short |-> [[q \in Params |-> IF nm = "long" THEN "absent" ELSE "ok2"] EXCEPT ![p] = s]]
VARIABLE c
Init == \E p \in Params, l \in PV, s \in PV, nm \in {"long", "short"} :
          LET v == Vary(p, l, s, nm) IN
          \/ \E inp \in {"stdin", "bytes", "mic"}, al \in BOOLEAN :
               (inp # "bytes" => al) /\ c = [op |-> "source", inp |-> inp, ext |-> "", fpar |-> "none", large |-> FALSE, aligned |-> al, long |-> v.long, short |-> v.short]
          \/ \E ext \in Exts, f \in Fmts, lg \in BOOLEAN, al \in BOOLEAN :
               /\ (al = FALSE => Guess(ext, f) = "raw" /\ ~lg)
               /\ c = [op |-> "source", inp |-> "file", ext |-> ext, fpar |-> f, large |-> lg, aligned |-> al, long |-> v.long, short |-> v.short]
          \/ \E ext \in Exts, f \in Fmts :
               c = [op |-> "save", inp |-> "file", ext |-> ext, fpar |-> f, large |-> FALSE, aligned |-> TRUE, long |-> v.long, short |-> v.short]
Next == UNCHANGED c
Spec == Init /\ [][Next]_c
\* sanity of the table itself
Sane == LET o == Outcome(c) IN
        /\ (o.err = "none") # (o.cls = "none")
        /\ (c.op = "source" /\ c.inp = "file" /\ Guess(c.ext, c.fpar) = "wav" => o.err = "none")        \* a wav file never needs the keyword parameters
        /\ (o.err = "none" /\ c.op = "source" /\ o.cls # "WaveAudioSource" /\ ~(c.inp = "file" /\ Guess(c.ext, c.fpar) = "wav")
              => \A p \in Params : c.long[p] # "absent" => o.par[p] = Val(p, c.long[p]))               \* the long name wins
=========================================================================
