---------------------------- MODULE Tokenizer ----------------------------
(* Implementation-shaped specification of auditok.core.StreamTokenizer (core.py:1260-1534).
   One action per source read, one per branch of _process (the bodies are the shared
   transcription TokCore!Step), the hand-over to the consumer as its own step (Emit), the
   end-of-stream request (_post_process = TokCore!Flush).  Extends the observation layer, so
   C01..C08 are statements about what a consumer of this machine sees.                        *)
EXTENDS TokCore, TokenizerProps
CONSTANTS MaxFrames, MinSet, MaxSet, SilSet, IMinSet, ISilSet   \* the parameter grid explored
VARIABLES pc,       \* "read" (suspended before data_source.read) | "proc" | "emit" | "done"
          r,        \* automaton registers (TokCore!Regs0 shape)
          pending   \* token computed by the last step, not yet handed over
vars == <<p, stream, out, nread, eos, late, done, pc, r, pending>>

Params == { [min |-> mn, max |-> mx, sil |-> sl, imin |-> im, isil |-> is, strict |-> sm, drop |-> dm] :
              mn \in MinSet, mx \in MaxSet, sl \in SilSet, im \in IMinSet, is \in ISilSet,
              sm \in BOOLEAN, dm \in BOOLEAN }
\* _current_frame of the code: index of the last read, counting the end-of-stream request
cur == nread + eos - 1

Init == /\ p \in {q \in Params : Accepted(q)} /\ stream = <<>> /\ out = <<>> /\ nread = 0 /\ eos = 0 /\ late = 0
        /\ done = FALSE /\ pc = "read" /\ r = Regs0 /\ pending = NoTok

\* data_source.read() returned a frame of validity v
ReadFrame(v) == /\ pc = "read" /\ Len(stream) < MaxFrames
                /\ nread' = nread + 1 /\ stream' = Append(stream, v) /\ pc' = "proc"
                /\ UNCHANGED <<p, out, eos, late, done, r, pending>>
\* one action per branch of _process; common body
Do(name) == /\ pc = "proc" /\ Branch(p, r, stream[nread]) = name
            /\ LET s == Step(p, r, cur, stream[nread]) IN
               /\ r' = s.r /\ pending' = s.tok /\ pc' = (IF s.tok = NoTok THEN "read" ELSE "emit")
            /\ UNCHANGED <<p, stream, out, nread, eos, late, done>>
SilSkip == pc = "proc" /\ Do("SilSkip")
SilStart == pc = "proc" /\ Do("SilStart")
PNValid == pc = "proc" /\ Do("PNValid")
PNInvalid == pc = "proc" /\ Do("PNInvalid")
NValid == pc = "proc" /\ Do("NValid")
NInvalid == pc = "proc" /\ Do("NInvalid")
PSValid == pc = "proc" /\ Do("PSValid")
PSInvalid == pc = "proc" /\ Do("PSInvalid")
\* the token reaches the consumer (yield / callback)
Emit == /\ pc = "emit"
        /\ out' = Append(out, [frames |-> pending.frames, start |-> pending.start, end |-> pending.end, at |-> cur, fl |-> eos])
        /\ pending' = NoTok /\ pc' = (IF eos > 0 THEN "done" ELSE "read") /\ done' = (eos > 0)
        /\ UNCHANGED <<p, stream, nread, eos, late, r>>
\* data_source.read() returned None: _post_process
ReadEOS == /\ pc = "read" /\ eos' = eos + 1
           /\ LET s == Flush(p, r, cur + 1) IN
              /\ r' = s.r /\ pending' = s.tok /\ pc' = (IF s.tok = NoTok THEN "done" ELSE "emit") /\ done' = (s.tok = NoTok)
           /\ UNCHANGED <<p, stream, out, nread, late>>
Finished == pc = "done" /\ UNCHANGED vars
Next == (\E v \in BOOLEAN : ReadFrame(v)) \/ SilSkip \/ SilStart \/ PNValid \/ PNInvalid \/ NValid \/ NInvalid
        \/ PSValid \/ PSInvalid \/ Emit \/ ReadEOS \/ Finished
Spec == Init /\ [][Next]_vars

TypeOK == /\ pc \in {"read", "proc", "emit", "done"} /\ r.st \in {"SILENCE", "POSSIBLE_NOISE", "NOISE", "POSSIBLE_SILENCE"}
          /\ Len(r.buf) < p.max /\ r.sil >= 0 /\ (pc = "emit" <=> pending # NoTok) /\ (done <=> pc = "done")
          /\ nread = Len(stream) /\ late = 0

\* The inductive invariant of the integer abstraction (TokenizerInt, discharged by Apalache for all parameter values),
\* read on the concrete registers: the abstraction n = Len(buf) is faithful on the grid.
AbsInv == /\ Len(r.buf) < p.max /\ r.sil >= 0 /\ r.icount >= 0
          /\ (r.st = "SILENCE" => r.buf = <<>> /\ ~r.contig)
          /\ (r.st = "POSSIBLE_NOISE" => ~r.contig /\ r.sil <= p.isil /\ Len(r.buf) >= 1)
          /\ (r.st = "NOISE" => r.sil = 0)
          /\ (r.st = "POSSIBLE_SILENCE" => r.sil >= 1 /\ r.sil <= p.sil)
          /\ (r.contig => LET t == IF pending # NoTok THEN pending ELSE IF out # <<>> THEN out[Len(out)] ELSE NoTok IN      \* contig => adj:
                            t # NoTok /\ r.startf = t.end + 1 /\ Len(t.frames) = p.max)    \* the open buffer starts right after a token cut at max_length
\* the declarative segmentation written as a pure function (module SegPure, used by Workers / WorkersObs) is the same function
SegP == INSTANCE SegPure
SegSame == done => SegP!SegOf(p, stream) = Seg(0)

(* C08, prefix consistency: what an end-of-stream flush would deliver at a suspension point is never
   lost and never shrinks.  fc/nout are snapshots taken when the next frame is requested; they are
   history variables of this property only (module TokenizerPrefix adds them).                    *)
FlushNow == Flush(p, r, cur + 1).tok
\* append-only output
AppendOnly == [][Len(out') >= Len(out) /\ \A i \in 1..Len(out) : out'[i] = out[i]]_vars
=========================================================================
