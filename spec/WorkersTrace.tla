---------------------------- MODULE WorkersTrace ----------------------------
EXTENDS Workers, Json, IOUtils, TLCExt
Traces == JsonDeserialize(IOEnv.TRACE_FILE)
VARIABLES tid, l
Ev == Traces[tid].ev
E == Ev[l]
tv == <<vars, tid, l>>
TInit == /\ tid \in 1..Len(Traces) /\ l = 1
         /\ p = Traces[tid].p /\ r = Regs0 /\ cur = -1 /\ stream = <<>> /\ out = <<>> /\ finished = FALSE
         /\ inbox = [t \in Threads |-> <<>>] /\ tpc = "unstarted" /\ nidx = 1
         /\ opc = [o \in 1..MaxObs |-> "unstarted"] /\ processed = [o \in 1..MaxObs |-> <<>>]
         /\ spc = "unstarted" /\ cache = <<>> /\ file = <<>> /\ fclosed = FALSE
         /\ mpc = (IF Traces[tid].p.saver THEN "start_saver" ELSE IF Traces[tid].p.nobs > 0 THEN "start_obs" ELSE "start_tok") /\ midx = 1
Is(th, pt) == l <= Len(Ev) /\ E.th = th /\ E.pt = pt /\ l' = l + 1 /\ tid' = tid
\* an event immediately followed by the validator's verdict (same thread, nothing in between)
IsV(th, pt) == l + 1 <= Len(Ev) /\ E.th = th /\ E.pt = pt /\ Ev[l+1].th = th /\ Ev[l+1].pt = "V" /\ l' = l + 2 /\ tid' = tid
Stutter == UNCHANGED vars
ObsNames == {ON(i) : i \in Obs}
OIdx(name) == CHOOSE i \in Obs : ON(i) = name
K(m) == m.k
TMain == \/ Is("main", "begin") /\ Stutter
         \/ Is("main", "idle") /\ Stutter
         \/ Is("main", "start") /\ E.target = "saver" /\ MStartSaver
         \/ Is("main", "start") /\ E.target \in ObsNames /\ midx = OIdx(E.target) /\ MStartObs
         \/ Is("main", "start") /\ E.target = "tok" /\ MStartTok
         \/ Is("main", "join") /\ E.target = "tok" /\ (MJoinTok \/ MSJoinTok)
         \/ Is("main", "join") /\ E.target \in ObsNames /\ midx = OIdx(E.target) /\ (MJoinObs \/ MSJoinObs)
         \/ Is("main", "join") /\ E.target = "saver" /\ MJoinSaver
         \/ Is("main", "put") /\ E.q = "tok" /\ K(E.msg) = "stop" /\ MStopTok
         \/ Is("main", "put") /\ E.q \in ObsNames /\ K(E.msg) = "stop" /\ midx = OIdx(E.q) /\ MSStopObs
         \/ Is("main", "put") /\ E.q = "saver" /\ K(E.msg) = "stop" /\ MSStopSaver
         \/ Is("main", "end") /\ mpc = "done" /\ Stutter
TTok == \/ Is("tok", "begin") /\ TBegin
        \/ Is("tok", "poll") /\ K(E.msg) = "none" /\ TPollNone
        \/ Is("tok", "poll") /\ K(E.msg) = "stop" /\ TPollStop
        \/ Is("tok", "src_read") /\ E.got > 0 /\ UseSaver /\ TRead(FALSE)
        \/ IsV("tok", "src_read") /\ E.got > 0 /\ ~UseSaver /\ TRead(Ev[l+1].v)
        \/ Is("tok", "src_read") /\ E.got = 0 /\ TReadNone
        \/ IsV("tok", "put") /\ E.q = "saver" /\ K(E.msg) = "blk" /\ TFwd(Ev[l+1].v)
        \/ Is("tok", "put") /\ E.q = "saver" /\ K(E.msg) = "stop" /\ (TFwdStop \/ TStopSaver)
        \/ Is("tok", "put") /\ E.q \in ObsNames /\ K(E.msg) = "det" /\ nidx = OIdx(E.q) /\ E.msg.id = Len(out) /\ TNotify
        \/ Is("tok", "put") /\ E.q \in ObsNames /\ K(E.msg) = "stop" /\ nidx = OIdx(E.q) /\ TStopObs
        \/ Is("tok", "join") /\ E.target = "saver" /\ TJoinSaver
        \/ Is("tok", "end") /\ tpc = "done" /\ Stutter
TObs == \E o \in Obs :
        \/ Is(ON(o), "begin") /\ OBegin(o)
        \/ Is(ON(o), "get") /\ OGet(o) /\ K(E.msg) = K(Head(inbox[ON(o)])) /\ (K(E.msg) = "det" => E.msg.id = Head(inbox[ON(o)]).id)
        \/ Is(ON(o), "timeout") /\ OTimeout(o)
        \/ Is(ON(o), "poll") /\ ODrain(o) /\ (K(E.msg) = "none" <=> inbox[ON(o)] = <<>>)
        \/ Is(ON(o), "end") /\ opc[o] = "done" /\ Stutter
TSav == \/ Is("saver", "begin") /\ SBegin
        \/ Is("saver", "get") /\ SGet /\ K(E.msg) = K(Head(inbox["saver"]))
        \/ Is("saver", "timeout") /\ STimeout
        \/ Is("saver", "poll") /\ SDrain /\ (K(E.msg) = "none" <=> inbox["saver"] = <<>>)
        \/ Is("saver", "end") /\ spc = "done" /\ Stutter
TNext == TMain \/ TTok \/ TObs \/ TSav
TSpec == TInit /\ [][TNext]_tv
ASSUME \A t \in 1..Len(Traces) : TLCSet(t, 0)
Progress == TLCSet(tid, l)
Post == \A t \in 1..Len(Traces) : PrintT(ToJson(<<"TRACE", t, TLCGet(t), Len(Traces[t].ev) + 1>>))
=============================================================================
