---------------------------- MODULE CliTpl ----------------------------
(* C15, "unknown directives raise an error": a --time-format template as a sequence of tokens.  %S and %I are whole formats (they must
   be used alone, util.py:35-131); %h %m %s %i may be mixed freely with text; anything else that starts with a percent sign -- an
   unknown letter, a lone percent sign, %S or %I inside a longer template -- is an unknown directive and make_duration_formatter
   raises TimeFormatError.  TLC enumerates every template of up to MaxTok tokens with the prescribed outcome; the harness builds each
   one and compares (raised or not; for the accepted ones the rendering of several durations with the fields of Cli!OkFields).     *)
EXTENDS Naturals, Sequences, TLC, Json
CONSTANT MaxTok
Tokens == {"%h", "%m", "%s", "%i", "%S", "%I", "%x", "%", ":", " "}
Fields == {"%h", "%m", "%s", "%i"}
Text == {":", " "}
TemplateOK(t) == t = <<"%S">> \/ t = <<"%I">> \/ \A k \in 1..Len(t) : t[k] \in Fields \cup Text
Kind(t) == IF t = <<"%S">> THEN "S" ELSE IF t = <<"%I">> THEN "I" ELSE "F"
VARIABLE t
Init == \E n \in 1..MaxTok : t \in [1..n -> Tokens]
Next == UNCHANGED t
Spec == Init /\ [][Next]_t
\* sanity: a template with any of the whole-format or unknown tokens next to something else is rejected
Sane == (Len(t) >= 2 /\ \E k \in 1..Len(t) : t[k] \in {"%S", "%I", "%x", "%"}) => ~TemplateOK(t)
Export == PrintT(ToJson([tpl |-> t, ok |-> TemplateOK(t), kind |-> Kind(t)]))
=======================================================================
