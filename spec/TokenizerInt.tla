---------------------------- MODULE TokenizerInt ----------------------------
(* Integer abstraction of the tokenizer automaton for UNBOUNDED reasoning with Apalache: the buffer is abstracted to
   its length n, parameters are symbolic (CInit constrains them exactly as the constructor does), `adj` is a ghost saying
   that the open buffer starts at the frame right after a token cut at max_length, `emitted`/`emAdj` describe the token
   delivered by the last step.  IndInv is inductive (Init => IndInv, IndInv /\ Next => IndInv') and implies Safe, for
   ALL parameter values and streams of ANY length: no token longer than max_length, a token shorter than min_length only
   in non-strict mode right after a cut (C02), silence runs bounded by max_continuous_silence / init_max_silence (C03).
   Tokenizer.tla checks with TLC that the same invariant, read on the concrete registers (AbsInv), holds on the grid.  *)
EXTENDS Integers
CONSTANTS
  \* @type: Int;
  MinL,
  \* @type: Int;
  MaxL,
  \* @type: Int;
  MaxS,
  \* @type: Int;
  IMin,
  \* @type: Int;
  ISil,
  \* @type: Bool;
  Strict,
  \* @type: Bool;
  Drop
VARIABLES
  \* @type: Str;
  st,
  \* @type: Int;
  n,
  \* @type: Int;
  sil,
  \* @type: Int;
  ic,
  \* @type: Bool;
  contig,
  \* @type: Bool;
  adj,
  \* @type: Int;
  emitted,
  \* @type: Bool;
  emAdj
CInit == /\ MinL \in Int /\ MaxL \in Int /\ MaxS \in Int /\ IMin \in Int /\ ISil \in Int
         /\ Strict \in BOOLEAN /\ Drop \in BOOLEAN
         /\ MaxL > 0 /\ MinL > 0 /\ MinL <= MaxL /\ MaxS >= 0 /\ MaxS < MaxL /\ IMin >= 0 /\ IMin < MaxL /\ ISil >= 0
Init == st = "S" /\ n = 0 /\ sil = 0 /\ ic = 0 /\ contig = FALSE /\ adj = FALSE /\ emitted = 0 /\ emAdj = FALSE
\* end of detection with buffer length b, silence s, going to state nst
EOD(nst, b, truncated, s, nic) ==
  LET b1 == IF ~truncated /\ Drop /\ s > 0 THEN (IF b - s > 0 THEN b - s ELSE 0) ELSE b IN
  /\ st' = nst /\ n' = 0 /\ sil' = s /\ ic' = nic
  /\ IF b1 >= MinL \/ (b1 > 0 /\ ~Strict /\ contig)
     THEN emitted' = b1 /\ emAdj' = contig /\ contig' = truncated /\ adj' = truncated
     ELSE emitted' = 0 /\ emAdj' = FALSE /\ contig' = FALSE /\ adj' = FALSE
Keep(nst, nn, ns, nic, ncontig, nadj) ==
  st' = nst /\ n' = nn /\ sil' = ns /\ ic' = nic /\ contig' = ncontig /\ adj' = nadj /\ emitted' = 0 /\ emAdj' = FALSE
Valid ==
  \/ st = "S" /\ (IF 1 >= IMin THEN (IF n + 1 >= MaxL THEN EOD("N", n + 1, TRUE, 0, 1) ELSE Keep("N", n + 1, 0, 1, contig, adj))
                  ELSE Keep("PN", n + 1, 0, 1, contig, adj))
  \/ st = "PN" /\ (IF ic + 1 >= IMin
                   THEN (IF n + 1 >= MaxL THEN EOD("N", n + 1, TRUE, 0, ic + 1) ELSE Keep("N", n + 1, 0, ic + 1, contig, adj))
                   ELSE (IF n + 1 >= MaxL THEN Keep("S", 0, 0, ic + 1, contig, FALSE) ELSE Keep("PN", n + 1, 0, ic + 1, contig, adj)))
  \/ st = "N" /\ (IF n + 1 >= MaxL THEN EOD("N", n + 1, TRUE, sil, ic) ELSE Keep("N", n + 1, sil, ic, contig, adj))
  \/ st = "PS" /\ (IF n + 1 >= MaxL THEN EOD("N", n + 1, TRUE, 0, ic) ELSE Keep("N", n + 1, 0, ic, contig, adj))
Invalid ==
  \/ st = "S" /\ Keep("S", n, sil, ic, contig, FALSE)
  \/ st = "PN" /\ (IF sil + 1 > ISil \/ n + 1 >= MaxL THEN Keep("S", 0, sil + 1, ic, contig, FALSE)
                   ELSE Keep("PN", n + 1, sil + 1, ic, contig, adj))
  \/ st = "N" /\ (IF MaxS <= 0 THEN EOD("S", n, FALSE, sil, ic)
                  ELSE IF n + 1 = MaxL THEN EOD("PS", n + 1, TRUE, 1, ic) ELSE Keep("PS", n + 1, 1, ic, contig, adj))
  \/ st = "PS" /\ (IF sil >= MaxS
                   THEN (IF sil < n THEN EOD("S", n, FALSE, sil, ic) ELSE Keep("S", 0, 0, ic, FALSE, FALSE))
                   ELSE (IF n + 1 >= MaxL THEN EOD("PS", n + 1, TRUE, sil + 1, ic) ELSE Keep("PS", n + 1, sil + 1, ic, contig, adj)))
Flush == /\ st \in {"N", "PS"} /\ n > 0 /\ n > sil /\ EOD("S", n, FALSE, sil, ic)
Next == Valid \/ Invalid \/ Flush
IndInv ==
  /\ st \in {"S", "PN", "N", "PS"}
  /\ n >= 0 /\ n < MaxL /\ sil >= 0 /\ ic >= 0
  /\ (st = "S" => n = 0 /\ ~contig)
  /\ (st = "PN" => ~contig /\ sil <= ISil /\ n >= 1)
  /\ (st = "N" => sil = 0)
  /\ (st = "PS" => sil >= 1 /\ sil <= MaxS)
  /\ (contig => adj)
  /\ emitted >= 0 /\ emitted <= MaxL
  /\ (emitted > 0 /\ emitted < MinL => ~Strict /\ emAdj)
IndInit == /\ st \in {"S", "PN", "N", "PS"} /\ n \in Int /\ sil \in Int /\ ic \in Int /\ contig \in BOOLEAN /\ adj \in BOOLEAN
           /\ emitted \in Int /\ emAdj \in BOOLEAN /\ IndInv
\* what the properties need
Safe == /\ emitted <= MaxL                                                   \* C02 upper bound
        /\ (emitted > 0 /\ emitted < MinL => ~Strict /\ emAdj)             \* C02 remainder rule (emAdj: buffer started right after a cut)
        /\ (st = "PS" => sil <= MaxS) /\ (st = "PN" => sil <= ISil)       \* C03 run bound
=======================================================================
