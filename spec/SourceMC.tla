---------------------------- MODULE SourceMC ----------------------------
EXTENDS Source, Json
\* every distinct state = one transition (prev --last--> current) of the abstract source
Export == (last.op # "new") => PrintT(ToJson([kind |-> kind, n |-> n, sr |-> sr, prev |-> prev, last |-> last,
                                               post |-> [isopen |-> isopen, pos |-> pos]]))
=========================================================================
