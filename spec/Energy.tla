---------------------------- MODULE Energy ----------------------------
(* The energy validator's decision (util.py:133-196, 283-312; signal.py:52-119) in exact integer
   arithmetic.  Samples are signed little-endian integers of width sw, channels interleaved.  A window
   is active at threshold T = 10*k dB iff 10*log10(mean square) >= T, i.e. sumsq >= n * 10^k, with
   digital silence floored at -200 dB (k <= -20).  Channel selection: None/"any" -> some channel active
   (maximum), "mix"/"avg"/"average" -> the per-sample arithmetic mean of the channels, integer -> that
   channel (negative from the end), anything else -> ValueError; one channel -> selection ignored.
   All quantities stay below 2^31 (TLC integers): callers bound |sample| and window size accordingly;
   TLC raises on overflow, it never wraps, so a bound that is too generous is a machinery error.     *)
EXTENDS Naturals, Integers, Sequences, FiniteSets, TLC
\* ---- decode: signed little-endian (for sw = 4 the top byte is decoded as signed first: no overflow)
SByte(b) == IF b >= 128 THEN b - 256 ELSE b
Decode(bs, sw) == IF sw = 1 THEN SByte(bs[1])
                  ELSE IF sw = 2 THEN bs[1] + 256 * SByte(bs[2])
                  ELSE bs[1] + 256 * bs[2] + 65536 * bs[3] + 16777216 * SByte(bs[4])
\* window of C channels from interleaved bytes: win[c][i] = sample i of channel c
Samples(bytes, sw) == [j \in 1..(Len(bytes) \div sw) |-> Decode(SubSeq(bytes, (j - 1) * sw + 1, j * sw), sw)]
Deinterleave(xs, C) == [c \in 1..C |-> [i \in 1..(Len(xs) \div C) |-> xs[(i - 1) * C + c]]]
Window(bytes, sw, C) == Deinterleave(Samples(bytes, sw), C)
ASSUME Decode(<<0, 128>>, 2) = -32768 /\ Decode(<<0, 0, 0, 128>>, 4) = -2147483647 - 1 /\ Decode(<<255, 255, 255, 127>>, 4) = 2147483647
ASSUME Decode(<<16, 0>>, 2) = 16 /\ Decode(<<0, 16>>, 2) = 4096 /\ Decode(<<255>>, 1) = -1 /\ Decode(<<128>>, 1) = -128
ASSUME Window(<<1, 2, 3, 4, 5, 6>>, 1, 3) = <<<<1, 4>>, <<2, 5>>, <<3, 6>>>>

RECURSIVE Sum(_, _)
Sum(f, n) == IF n = 0 THEN 0 ELSE f[n] + Sum(f, n - 1)
SumSq(ch) == Sum([i \in 1..Len(ch) |-> ch[i] * ch[i]], Len(ch))
RECURSIVE Pow10(_)
Pow10(k) == IF k = 0 THEN 1 ELSE 10 * Pow10(k - 1)
CeilDiv(a, b) == (a + b - 1) \div b
\* mean square (sumsq / n) >= 10^k, zero energy floored at -200 dB; written so that nothing overflows
GE(sumsq, n, k) == IF sumsq = 0 THEN k <= -20
                   ELSE IF k >= 10 THEN FALSE                       \* sumsq < 2^31 < 10^10
                   ELSE IF k >= 0 THEN sumsq \div Pow10(k) >= n      \* sumsq >= n * 10^k
                   ELSE IF k <= -9 THEN TRUE                        \* n < 10^9: any non-zero integer window is above -90 dB
                   ELSE sumsq >= CeilDiv(n, Pow10(-k))              \* sumsq * 10^-k >= n
ChanActive(ch, k) == GE(SumSq(ch), Len(ch), k)
MixSums(win) == [i \in 1..Len(win[1]) |-> Sum([c \in 1..Len(win) |-> win[c][i]], Len(win))]
\* mean channel m[i] = s[i]/C : sum (s/C)^2 / n >= 10^k  <=>  sum s^2 >= n*C^2*10^k
MixActive(win, k) == LET C == Len(win) IN GE(SumSq(MixSums(win)), Len(win[1]) * C * C, k)
B2S(b) == IF b THEN "T" ELSE "F"
\* selector given by name (None is "none")
VerdictName(win, name, k) ==
  IF Len(win) = 1 THEN B2S(ChanActive(win[1], k))                    \* selection ignored for mono
  ELSE IF name \in {"none", "any"} THEN B2S(\E c \in 1..Len(win) : ChanActive(win[c], k))
  ELSE IF name \in {"mix", "avg", "average"} THEN B2S(MixActive(win, k))
  ELSE "ValueError"
\* selector given as an integer index
VerdictIdx(win, idx, k) ==
  LET C == Len(win) IN
  IF C = 1 THEN B2S(ChanActive(win[1], k))
  ELSE IF idx >= C \/ idx < -C THEN "ValueError"
  ELSE B2S(ChanActive(win[(IF idx < 0 THEN idx + C ELSE idx) + 1], k))
=======================================================================
