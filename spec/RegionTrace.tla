---------------------------- MODULE RegionTrace ----------------------------
(* Trace specification for AudioRegion: a pool of regions (id sequences + audio parameters); every logged
   call names its operands by pool index and carries the projected result; the specification recomputes
   the result with the operators of Region and appends it to the pool, so that operation SEQUENCES
   (results of results) are checked and "no operation alters its operands" is the logged field `intact`
   (all pool members re-projected after the call).  Exact characterisations: a rejected event is a
   violation of the property the operation belongs to (slicing / views / len / duration / index errors:
   C16; algebra: C17).
   Trace: [pool |-> <<[ids, par]>>, ev |-> <<event>>]                                              *)
EXTENDS Region, Json, IOUtils, TLCExt
Traces == JsonDeserialize(IOEnv.TRACE_FILE)
VARIABLES tid, l, pool
tvars == <<tid, l, pool>>
Ev == Traces[tid].ev
E == Ev[l]
TInit == tid \in 1..Len(Traces) /\ l = 1 /\ pool = Traces[tid].pool
R(i) == pool[i]
N(i) == Len(pool[i].ids)
Sub(i, lohi) == SubSeq(pool[i].ids, lohi[1] + 1, lohi[2])
Add(ids, par) == pool' = Append(pool, [ids |-> ids, par |-> par])
Keep == pool' = pool
Zeros(s) == \A k \in 1..Len(s) : s[k] = 0
OkSlice == /\ E.op = "slice" /\ E.k = "ok" /\ E.ret = Sub(E.r, PySlice(N(E.r), E.a, E.b)) /\ E.par = R(E.r).par /\ Add(E.ret, E.par)
\* some admissible start / stop index (at most 3 x 4 candidates) explains the returned samples
SecRetOK(i, an, ad, bn, bd, ret) ==
  LET sr == R(i).par[1]  n == N(i) IN
  \E ga \in (TruncDiv(an * sr, ad) - 1)..(TruncDiv(an * sr, ad) + 1) :
    /\ StartOK(ga, an * sr, ad)
    /\ IF bn = None THEN ret = Sub(i, PySlice(n, ga, None))
       ELSE \E gb \in (TruncDiv(bn * sr, bd) - 1)..(TruncDiv(bn * sr, bd) + 2) : StopOK(gb, bn * sr, bd) /\ ret = Sub(i, PySlice(n, ga, gb))
OkSec == /\ E.op = "sec" /\ E.k = "ok" /\ E.par = R(E.r).par /\ SecRetOK(E.r, E.an, E.ad, E.bn, E.bd, E.ret) /\ Add(E.ret, E.par)
\* milliseconds view = seconds view at t/1000 (and the run compared the two calls directly: same)
OkMs == /\ E.op = "ms" /\ E.k = "ok" /\ E.par = R(E.r).par /\ E.same /\ SecRetOK(E.r, E.a, 1000, E.b, 1000, E.ret) /\ Add(E.ret, E.par)
OkLen == E.op = "len" /\ E.v = N(E.r) /\ E.num * R(E.r).par[1] = N(E.r) * E.den /\ Keep          \* len() and duration = len / rate
OkTypeErr == E.op = "typeerr" /\ E.k = "TypeError" /\ Keep                                        \* step / wrong bound types
OkConcat == /\ E.op = "concat"
            /\ IF SameParams(R(E.r1).par, R(E.r2).par) THEN E.k = "ok" /\ E.ret = R(E.r1).ids \o R(E.r2).ids /\ E.par = R(E.r1).par /\ Add(E.ret, E.par)
               ELSE E.k = "AudioParameterError" /\ Keep
RECURSIVE Cat(_)
Cat(rs) == IF rs = <<>> THEN <<>> ELSE R(Head(rs)).ids \o Cat(Tail(rs))
AllSame(rs, par) == \A j \in 1..Len(rs) : SameParams(R(rs[j]).par, par)
OkSum == /\ E.op = "sum" /\ Len(E.rs) >= 1
         /\ IF AllSame(E.rs, R(E.rs[1]).par) THEN E.k = "ok" /\ E.ret = Cat(E.rs) /\ E.par = R(E.rs[1]).par /\ Add(E.ret, E.par)
            ELSE E.k = "AudioParameterError" /\ Keep
OkMul == E.op = "mul" /\ E.k = "ok" /\ E.ret = Rep(R(E.r).ids, E.n) /\ E.par = R(E.r).par /\ Add(E.ret, E.par)
OkDiv == /\ E.op = "div" /\ E.k = "ok" /\ N(E.r) >= 1
         /\ LET d == DivImpl(N(E.r), E.n) IN
            /\ Len(E.pieces) = Len(d) /\ Len(d) = Min2(E.n, N(E.r))
            /\ \A j \in 1..Len(d) : E.pieces[j] = Sub(E.r, d[j])
         /\ Keep
OkJoin == /\ E.op = "join"
          /\ IF AllSame(E.rs, R(E.sep).par) THEN E.k = "ok" /\ E.par = R(E.sep).par
                                                /\ E.ret = JoinSeq(R(E.sep).ids, [j \in 1..Len(E.rs) |-> R(E.rs[j]).ids]) /\ Add(E.ret, E.par)
             ELSE E.k = "AudioParameterError" /\ Keep
OkSilence == E.op = "silence" /\ E.k = "ok" /\ (IF E.exact THEN SilenceExactOK(Len(E.ret), E.dn, E.dd, E.par[1]) ELSE SilenceOK(Len(E.ret), E.dn, E.dd, E.par[1])) /\ Zeros(E.ret) /\ Add(E.ret, E.par)
OkEq == E.op = "eq" /\ E.v = (R(E.r1).ids = R(E.r2).ids /\ R(E.r1).par = R(E.r2).par) /\ Keep
OkFrozen == E.op = "assign" /\ E.k = "FrozenInstanceError" /\ Keep
OkRagged == E.op = "ragged" /\ E.k = "AudioParameterError" /\ Keep
Step == /\ l <= Len(Ev) /\ l' = l + 1 /\ tid' = tid /\ E.intact
        /\ (OkSlice \/ OkSec \/ OkMs \/ OkLen \/ OkTypeErr \/ OkConcat \/ OkSum \/ OkMul \/ OkDiv \/ OkJoin \/ OkSilence \/ OkEq \/ OkFrozen \/ OkRagged)
TSpec == TInit /\ [][Step]_tvars
Mon == TLCSet(tid, l)
ASSUME \A t \in 1..Len(Traces) : TLCSet(t, 0)
Post == \A t \in 1..Len(Traces) : PrintT(ToJson(<<"TRACE", t, TLCGet(t), Len(Traces[t].ev) + 1>>))
=============================================================================
