---------------------------- MODULE RegionInt ----------------------------
(* C16's core for ALL region lengths, sample sizes and slice bounds -- no bound: the byte-offset computation of AudioRegion.__getitem__
   (core.py:1125-1140: the start is normalised by hand, the UNNORMALISED stop is multiplied by the sample size and the bytes object
   is sliced) selects exactly the samples Python slicing selects on a sequence of n samples, None bounds included.  Discharged
   symbolically by Apalache/Z3 (length 0); the formulas are those of module Region with the None bound as a separate flag.        *)
EXTENDS Integers
VARIABLES
  \* @type: Int;
  n,
  \* @type: Int;
  bps,
  \* @type: Int;
  a,
  \* @type: Int;
  b,
  \* @type: Bool;
  aNone,
  \* @type: Bool;
  bNone,
  \* @type: Int;
  dn,
  \* @type: Int;
  dk
Min2(x, y) == IF x < y THEN x ELSE y
Max2(x, y) == IF x > y THEN x ELSE y
\* Python slice normalisation on a sequence of m items; isNone selects the default
Norm(x, isNone, m, dflt) == IF isNone THEN dflt ELSE IF x < 0 THEN Max2(x + m, 0) ELSE Min2(x, m)
Lo(m, x, xNone) == Norm(x, xNone, m, 0)
Hi(m, x, xNone, y, yNone) == Max2(Lo(m, x, xNone), Norm(y, yNone, m, m))
\* implementation-shaped: byte offsets, the unnormalised stop multiplied
Start0 == IF aNone THEN 0 ELSE a
Start1 == IF Start0 < 0 THEN Max2(Start0 + n, 0) ELSE Start0
Onset == Start1 * bps
Offset == b * bps
RLo == Lo(n * bps, Onset, FALSE)
RHi == Hi(n * bps, Onset, FALSE, Offset, bNone)
SLo == Lo(n, a, aNone)
SHi == Hi(n, a, aNone, b, bNone)
Init == /\ n \in Int /\ bps \in Int /\ a \in Int /\ b \in Int /\ aNone \in BOOLEAN /\ bNone \in BOOLEAN /\ n >= 0 /\ bps >= 1
        /\ dn \in Int /\ dk \in Int /\ dn >= 1 /\ dk >= 1
Next == UNCHANGED <<n, bps, a, b, aNone, bNone, dn, dk>>
\* C17, division of a region of dn >= 1 samples by dk >= 1: piece i of the Min2(dk, dn) pieces has dn div dk + 1 samples for i <= dn mod dk and
\* dn div dk otherwise (Region!DivLens); for ALL dn, dk: the longer pieces are among the pieces, the lengths sum to dn, no piece is empty
DQ == dn \div dk
DR == dn % dk
DM == Min2(dk, dn)
DivLemma == /\ DR <= DM /\ DR * (DQ + 1) + (DM - DR) * DQ = dn /\ (DQ >= 1 \/ DR = DM)
\* non-vacuity: FALSE (pieces are not always equally long)
AllEqual == DR = 0
SliceAgree == /\ RLo % bps = 0 /\ RHi % bps = 0
              /\ (RHi - RLo) = (SHi - SLo) * bps
              /\ (SHi > SLo => RLo = SLo * bps)
\* non-vacuity: FALSE (a slice rarely is the whole region) and Apalache must say so
WholeRegion == RHi - RLo = n * bps
=============================================================================
