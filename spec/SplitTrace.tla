---------------------------- MODULE SplitTrace ----------------------------
(* FREE observation trace specification of split() / AudioRegion.split(): the observation variables of
   TokenizerProps are rebuilt from what was observed at the API boundary -- per-window validator decisions
   (W), regions reaching the consumer (REG), reads of the underlying source (SR / EOS), errors (ERR) --
   with the analysis windows as frames.  The tokenizer parameters are NOT logged: they are computed here
   from the durations by module Durations, so C02/C03/C04 evaluated on the windows decide C06, and the
   region geometry decides C05; hand-over timing decides the split() part of C08.
   Trace record: [c |-> [mind, maxd, sild, wn, wd, sr, B, strict, drop, rdr, lazy], ev]
   Events: {e:"W", v, n}  {e:"REG", first, len, ok, tok}  {e:"SR", got}  {e:"EOS"}  {e:"ERR", cls}  {e:"END"}  *)
EXTENDS TokenizerProps, Durations, Json, IOUtils, TLCExt
Traces == JsonDeserialize(IOEnv.TRACE_FILE)
VARIABLES tid, l, chk, wl, regs, handed, err
tvars == <<obsvars, tid, l, chk, wl, regs, handed, err>>
Ev == Traces[tid].ev
C == Traces[tid].c
P0 == [min |-> MinLen(C.mind, C.wn, C.wd), max |-> MaxLen(C.maxd, C.wn, C.wd), sil |-> MaxSil(C.sild, C.wn, C.wd),
       imin |-> 0, isil |-> 0, strict |-> C.strict, drop |-> C.drop]
Rej == Reject(C.mind, C.maxd, C.sild, C.wn, C.wd, C.sr, C.rdr)
TInit == /\ tid \in 1..Len(Traces) /\ l = 1 /\ chk = FALSE
         /\ p = (IF Rej THEN [min |-> 1, max |-> 1, sil |-> 0, imin |-> 0, isil |-> 0, strict |-> FALSE, drop |-> FALSE] ELSE P0)
         /\ stream = <<>> /\ out = <<>> /\ nread = 0 /\ eos = 0 /\ late = 0 /\ done = FALSE
         /\ wl = <<>> /\ regs = <<>> /\ handed = 0 /\ err = "none"
Is(e) == l <= Len(Ev) /\ Ev[l].e = e /\ l' = l + 1 /\ UNCHANGED <<tid, p>>
B == C.B
RECURSIVE SumTo(_, _)
SumTo(s, k) == IF k = 0 THEN 0 ELSE s[k] + SumTo(s, k - 1)
OW == Is("W") /\ nread' = nread + 1 /\ stream' = Append(stream, Ev[l].v) /\ wl' = Append(wl, Ev[l].n)
      /\ late' = (IF eos > 0 THEN late + 1 ELSE late) /\ chk' = FALSE /\ UNCHANGED <<out, eos, done, regs, handed, err>>
\* a region reaches the consumer: the token it stands for is recovered from its sample range
OREG == Is("REG") /\ LET f == Ev[l].first  n == Ev[l].len  s == f \div B  e == s + CeilDiv(n, B) - 1 IN     \* number of windows joined (also right for overlapping readers)
          /\ out' = Append(out, [frames |-> [k \in 1..(e - s + 1) |-> s + k - 1], start |-> s, end |-> e,
                                  at |-> nread + eos - 1, fl |-> eos])
          /\ regs' = Append(regs, [first |-> f, len |-> n, ok |-> Ev[l].ok, tok |-> Ev[l].tok, handed |-> handed])
       /\ chk' = TRUE /\ UNCHANGED <<stream, nread, eos, late, done, wl, handed, err>>
OSR == Is("SR") /\ handed' = handed + Ev[l].got /\ chk' = FALSE /\ UNCHANGED <<stream, out, nread, eos, late, done, wl, regs, err>>
OEOS == Is("EOS") /\ eos' = eos + 1 /\ chk' = FALSE /\ UNCHANGED <<stream, out, nread, late, done, wl, regs, handed, err>>
OERR == Is("ERR") /\ err' = Ev[l].cls /\ chk' = TRUE /\ UNCHANGED <<stream, out, nread, eos, late, done, wl, regs, handed>>
OSTOP == Is("STOP") /\ chk' = TRUE /\ UNCHANGED <<stream, out, nread, eos, late, done, wl, regs, handed, err>>   \* consumer walked away
\* the end-of-stream request is only observable with a logging source (C.lazy); otherwise a finished generator implies it
OEND == Is("END") /\ done' = TRUE /\ chk' = TRUE /\ eos' = (IF ~C.lazy /\ eos = 0 THEN 1 ELSE eos)
        /\ UNCHANGED <<stream, out, nread, late, wl, regs, handed, err>>
TNext == OW \/ OREG \/ OSR \/ OEOS \/ OERR \/ OEND \/ OSTOP
TSpec == TInit /\ [][TNext]_tvars

Tot == SumTo(wl, Len(wl))
\* C05 -- geometry: whole windows from the start, the token's own windows, the input's bytes and parameters, ordered
Geometry == /\ \A k \in 1..(Len(wl) - 1) : wl[k] = B                     \* only the last window may be shorter
            /\ \A k \in 1..Len(wl) : wl[k] >= 1 /\ wl[k] <= B
            /\ \A i \in 1..Len(regs) : LET r == regs[i] IN
                 /\ r.first >= 0 /\ r.first % B = 0                      \* start = whole number of analysis windows
                 /\ r.len >= 1 /\ r.first + r.len <= Tot                 \* only audio that was read
                 /\ (r.first + r.len) % B = 0 \/ r.first + r.len = Tot  \* whole windows, except at the very end of the input
                 /\ r.ok /\ r.tok                                        \* bytes / parameters / end-start=duration=samples/rate (projection)
                 /\ (i > 1 => regs[i-1].first + regs[i-1].len <= r.first)
C05 == (~Rej) => (Geometry /\ C01 /\ C02 /\ C03 /\ C04 /\ err = "none")
\* C06 -- the counts: tokens over the windows obey the bounds computed from the durations; decision table
C06 == /\ (Rej <=> err = "ValueError") /\ (err \in {"none", "ValueError"})
       /\ ((~Rej) => (C02 /\ C03 /\ C04))
       /\ (Rej => Len(regs) = 0 /\ Len(wl) = 0)
\* C08 (split part) -- a region is yielded before more than the deciding window has been pulled from the input
C08S == (C.lazy /\ ~Rej) =>
          /\ C08
          /\ \A i \in 1..Len(regs) : regs[i].handed <= (out[i].at + 1) * B
\* C09 -- the same audio in another container / spelling gives the regions of the reference run (peer)
Peer == Traces[tid].peer
C09 == (Traces[tid].usepeer /\ done) =>
          /\ Len(regs) = Len(Peer) /\ \A i \in 1..Len(regs) : regs[i].first = Peer[i][1] /\ regs[i].len = Peer[i][2]
          /\ Geometry /\ err = "none"
Bad(b, ok) == ok \/ TLCSet(b + tid, 1)
Mon == /\ (chk => Bad(100000, C05) /\ Bad(200000, C06) /\ Bad(300000, C08S) /\ Bad(400000, C09))
       /\ TLCSet(tid, l)
ASSUME \A t \in 1..Len(Traces) : \A b \in {0, 100000, 200000, 300000, 400000} : TLCSet(b + t, 0)
Post == \A t \in 1..Len(Traces) :
   PrintT(ToJson(<<"TRACE", t, TLCGet(t), Len(Traces[t].ev) + 1, TLCGet(100000 + t), TLCGet(200000 + t), TLCGet(300000 + t), TLCGet(400000 + t)>>))
=============================================================================
