---------------------------- MODULE Split ----------------------------
(* split() wiring (core.py:225-321, 418-452): fixed-size framing of the input into analysis windows of B
   samples (the last one possibly shorter), the tokenizer over the windows, and region construction
   (join of the token's windows; start = first window index * window duration).  Extends Tokenizer, so
   the detections are the real automaton's.  C05M: what the region claims (start*B) is where its bytes
   really come from (the sum of the lengths of all earlier windows), regions are ordered and disjoint. *)
EXTENDS Tokenizer
CONSTANT BSet
VARIABLES B,     \* window size in samples
          wl     \* lengths of the windows read so far
svars == <<vars, B, wl>>
SInit == Init /\ p.imin = 0 /\ p.isil = 0 /\ B \in BSet /\ wl = <<>>
\* the reader hands out full windows; a shorter one can only be the last (then only end of stream follows)
SRead == /\ (IF wl = <<>> THEN TRUE ELSE wl[Len(wl)] = B)
         /\ \E v \in BOOLEAN, n \in 1..B : ReadFrame(v) /\ wl' = Append(wl, n)
         /\ UNCHANGED B
SOther == (SilSkip \/ SilStart \/ PNValid \/ PNInvalid \/ NValid \/ NInvalid \/ PSValid \/ PSInvalid \/ Emit \/ ReadEOS \/ Finished)
          /\ UNCHANGED <<B, wl>>
SNext == SRead \/ SOther
SSpec == SInit /\ [][SNext]_svars
RECURSIVE SumTo(_, _)
SumTo(s, k) == IF k = 0 THEN 0 ELSE s[k] + SumTo(s, k - 1)
WStart(k) == SumTo(wl, k)                    \* true offset (in samples) of window k (0-based)
RegFirst(i) == out[i].start * B              \* _make_audio_region: start_frame * frame_duration * rate
RegLen(i) == WStart(out[i].end + 1) - WStart(out[i].start)    \* b"".join(frames)
C05M == /\ C01
        /\ \A i \in 1..Len(out) :
             /\ RegFirst(i) = WStart(out[i].start)                      \* the bytes are those at the reported start
             /\ RegLen(i) >= 1 /\ RegFirst(i) + RegLen(i) <= SumTo(wl, Len(wl))
             /\ (i > 1 => RegFirst(i-1) + RegLen(i-1) <= RegFirst(i))  \* increasing, non-overlapping
=======================================================================
