---------------------------- MODULE CliInt ----------------------------
(* C15's field decomposition for ALL whole-millisecond values -- no bound: for every W >= 0 the tuple
   (W div 3 600 000, (W div 60 000) mod 60, (W div 1000) mod 60, W mod 1000) satisfies Cli!OkFields, and it is the ONLY tuple that
   does (so a printed %h:%m:%s.%i that passes OkFields determines W, and W determines what may be printed).  Discharged
   symbolically by Apalache/Z3 (length 0); OkFields is copied verbatim from module Cli.                                  *)
EXTENDS Integers
VARIABLES
  \* @type: Int;
  W,
  \* @type: Int;
  h,
  \* @type: Int;
  mi,
  \* @type: Int;
  s,
  \* @type: Int;
  i
OkFields(hh, mm, ss, ii, w) == mm < 60 /\ ss < 60 /\ ii < 1000 /\ hh >= 0 /\ mm >= 0 /\ ss >= 0 /\ ii >= 0 /\ w = ((hh * 60 + mm) * 60 + ss) * 1000 + ii
Init == W \in Int /\ h \in Int /\ mi \in Int /\ s \in Int /\ i \in Int /\ W >= 0
Next == UNCHANGED <<W, h, mi, s, i>>
Exists == OkFields(W \div 3600000, (W \div 60000) % 60, (W \div 1000) % 60, W % 1000, W)
Unique == OkFields(h, mi, s, i, W) => (h = W \div 3600000 /\ mi = (W \div 60000) % 60 /\ s = (W \div 1000) % 60 /\ i = W % 1000)
\* non-vacuity: FALSE (hours are not bounded by 24) and Apalache must say so
HoursWrap == OkFields(h, mi, s, i, W) => h < 24
=======================================================================
