#!/bin/sh
# Offline setup: nothing is built; verify the toolchain and parse every specification module.
cd "$(dirname "$0")" || exit 2
set -e
command -v java >/dev/null
test -f /opt/veriftools/tla/tla2tools.jar
/venv/bin/python -c "import numpy, json, sys; sys.exit(0)"
mkdir -p out/work out/replays evidence
rm -rf out/work/sany && mkdir -p out/work/sany && cp spec/*.tla out/work/sany/
cd out/work/sany
fail=0
for f in *.tla; do
  if ! java -cp /opt/veriftools/tla/tla2tools.jar:/opt/veriftools/tla/CommunityModules-deps.jar tla2sany.SANY "$f" > "$f.log" 2>&1 || grep -q "Parse Error\|Semantic errors\|Could not find module\|\*\*\* Errors" "$f.log"; then
    echo "SANY failed on $f"; tail -5 "$f.log"; fail=1
  fi
done
cd ../../.. && rm -rf out/work/sany
[ $fail -eq 0 ] && echo "setup ok: specifications parse"
exit $fail
