#!/bin/sh
# usage: revert_check.sh <commit> <props...> : scratch copy of /repo with the fix commit reverted; the listed checks must report violations
c=$1; shift
d=/tmp/revfix_$c
rm -rf $d; mkdir -p $d; cd /repo && git ls-files -z | xargs -0 cp --parents -t $d
git -C /repo show $c -- auditok | (cd $d && patch -R -p1 -s) || { echo "cannot revert $c"; exit 2; }
cd /verif
for p in "$@"; do
  AUDITOK_REPO=$d VERIF_EVIDENCE_DIR=$d/ev timeout 2400 ./check $p quick 2>&1 | tail -1 | cut -c1-160 | sed "s/^/revert $c: /"
done
rm -rf $d
