#!/venv/bin/python
"""Seeded changes (mutants written by independent sub-agents): confirm and run the checks against them.

  seeded.py confirm <srcdir> <id> <property>     srcdir holds patch.diff, demo.py, notes.md
        -> scratch copy of /repo, apply patch, baseline suite must still pass, demo must fail with the
           change and pass without; on success the change is stored as /verif/seeded/<id>/
  seeded.py detect <id> [tier] [PROP ...]        run ./check PROP (default: the property in meta.json)
        against a scratch copy with the change applied; records detection in seeded/<id>/detect.json
Scratch copies live under /tmp/seeded_scratch and are removed afterwards.  /repo is never touched.
"""
import json
import os
import shutil
import subprocess
import sys
import time

VERIF = os.path.dirname(os.path.dirname(os.path.abspath(__file__)))
SCR = "/tmp/seeded_scratch"


def scratch(tag, patch=None):
    d = os.path.join(SCR, f"{tag}_{os.getpid()}")
    shutil.rmtree(d, ignore_errors=True)
    os.makedirs(SCR, exist_ok=True)
    subprocess.run(["git", "-C", "/repo", "worktree", "prune"], capture_output=True)
    # plain copy of the tracked working tree (no .git): cheap and isolated
    os.makedirs(d)
    files = subprocess.run(["git", "-C", "/repo", "ls-files"], capture_output=True, text=True).stdout.split("\n")
    for f in files:
        if not f:
            continue
        src = os.path.join("/repo", f)
        dst = os.path.join(d, f)
        os.makedirs(os.path.dirname(dst), exist_ok=True)
        if os.path.exists(src):
            shutil.copy2(src, dst)
    if patch:
        p = subprocess.run(["git", "apply", "--unsafe-paths", "--directory=" + d, os.path.abspath(patch)], capture_output=True, text=True, cwd="/")
        if p.returncode != 0:
            p = subprocess.run(["patch", "-p1", "-d", d, "-i", os.path.abspath(patch)], capture_output=True, text=True)
            if p.returncode != 0:
                raise SystemExit(f"patch does not apply: {p.stdout} {p.stderr}")
    return d


def run_demo(demo, repo):
    e = dict(os.environ, AUDITOK_DIR=repo, PYTHONDONTWRITEBYTECODE="1")
    try:
        p = subprocess.run(["/venv/bin/python", demo], capture_output=True, text=True, timeout=180, env=e, cwd=os.path.dirname(demo))
        return p.returncode, (p.stdout + p.stderr)[-600:]
    except subprocess.TimeoutExpired:
        return -9, "timeout"


def confirm(src, sid, prop):
    patch = os.path.join(src, "patch.diff")
    demo = os.path.join(src, "demo.py")
    clean = scratch(sid + "_clean")
    mut = scratch(sid + "_mut", patch)
    try:
        e = dict(os.environ, RUNBASE_TIMEOUT="600")
        suite = subprocess.run([os.path.join(VERIF, "tools/runbase.sh"), mut], capture_output=True, text=True, env=e)
        rc_clean, out_clean = run_demo(demo, clean)
        rc_mut, out_mut = run_demo(demo, mut)
    finally:
        shutil.rmtree(clean, ignore_errors=True)
        shutil.rmtree(mut, ignore_errors=True)
    ok = suite.returncode == 0 and rc_clean == 0 and rc_mut not in (0, -9)
    meta = {
        "id": sid, "property": prop,
        "suite_with_change": suite.stdout.strip()[-300:], "suite_passes": suite.returncode == 0,
        "demo_clean_rc": rc_clean, "demo_clean_out": out_clean[-300:],
        "demo_mutant_rc": rc_mut, "demo_mutant_out": out_mut[-400:],
        "confirmed": ok,
        "ran": ["tools/runbase.sh <scratch copy with patch>", "AUDITOK_DIR=<clean copy> python demo.py", "AUDITOK_DIR=<patched copy> python demo.py"],
        "needs_to_manifest": "see notes.md",
    }
    print(json.dumps(meta, indent=1))
    if ok:
        dst = os.path.join(VERIF, "seeded", sid)
        os.makedirs(dst, exist_ok=True)
        for f in ("patch.diff", "demo.py", "notes.md"):
            if os.path.exists(os.path.join(src, f)):
                shutil.copy(os.path.join(src, f), os.path.join(dst, f))
        with open(os.path.join(dst, "meta.json"), "w") as f:
            json.dump(meta, f, indent=1)
    return 0 if ok else 1


def detect(sid, tier, props):
    d = os.path.join(VERIF, "seeded", sid)
    meta = json.load(open(os.path.join(d, "meta.json")))
    props = props or [meta["property"]]
    mut = scratch(sid + "_det", os.path.join(d, "patch.diff"))
    res = {}
    try:
        for p in props:
            t0 = time.time()
            e = dict(os.environ, AUDITOK_REPO=mut, VERIF_EVIDENCE_DIR=os.path.join(SCR, "evidence_" + sid))
            try:
                r = subprocess.run([os.path.join(VERIF, "check"), p, tier], capture_output=True, text=True, env=e, timeout=(3600 if tier == "quick" else 10800))
                viol = [l for l in r.stdout.splitlines() if l.startswith("VIOLATION")]
                what = [l for l in r.stdout.splitlines() if l.startswith("# ")][:3]
                res[p] = {"rc": r.returncode, "violations": len(viol), "detected": r.returncode == 1 and len(viol) > 0,
                          "what": what, "wall_s": round(time.time() - t0, 1), "tail": r.stdout.strip().splitlines()[-1:] }
            except subprocess.TimeoutExpired:
                res[p] = {"rc": -9, "detected": False, "what": ["timeout"]}
            print(sid, p, tier, res[p]["rc"], res[p].get("violations"), res[p]["what"][:1])
    finally:
        shutil.rmtree(mut, ignore_errors=True)
        shutil.rmtree(os.path.join(SCR, "evidence_" + sid), ignore_errors=True)
    path = os.path.join(d, "detect.json")
    old = json.load(open(path)) if os.path.exists(path) else {}
    for p, v in res.items():
        old[f"{p}:{tier}"] = v
    with open(path, "w") as f:
        json.dump(old, f, indent=1)
    return 0


def benign(src, sid, tier, props):
    """A behaviour-preserving change: the suite must still pass and every listed check must stay silent (exit 0)."""
    patch = os.path.join(src, "patch.diff")
    mut = scratch(sid + "_ben", patch)
    res = {}
    try:
        e = dict(os.environ, RUNBASE_TIMEOUT="600")
        suite = subprocess.run([os.path.join(VERIF, "tools/runbase.sh"), mut], capture_output=True, text=True, env=e)
        for p in props:
            t0 = time.time()
            e = dict(os.environ, AUDITOK_REPO=mut, VERIF_EVIDENCE_DIR=os.path.join(SCR, "evidence_" + sid))
            try:
                r = subprocess.run([os.path.join(VERIF, "check"), p, tier], capture_output=True, text=True, env=e, timeout=(3600 if tier == "quick" else 10800))
                viol = [l for l in r.stdout.splitlines() if l.startswith("VIOLATION")]
                what = [l for l in r.stdout.splitlines() if l.startswith("# ") or l.startswith("MACHINERY")][:3]
                res[p] = {"rc": r.returncode, "violations": len(viol), "silent": r.returncode == 0 and not viol, "what": what,
                          "divergence": [l for l in r.stdout.splitlines() if l.startswith("DIVERGENCE")][:1], "wall_s": round(time.time() - t0, 1)}
            except subprocess.TimeoutExpired:
                res[p] = {"rc": -9, "silent": False, "what": ["timeout"]}
            print(sid, p, tier, "rc", res[p]["rc"], "silent" if res[p]["silent"] else "ALARM", res[p]["what"][:1], res[p].get("divergence"))
    finally:
        shutil.rmtree(mut, ignore_errors=True)
        shutil.rmtree(os.path.join(SCR, "evidence_" + sid), ignore_errors=True)
    dst = os.path.join(VERIF, "seeded", "benign", sid)
    os.makedirs(dst, exist_ok=True)
    for f in ("patch.diff", "notes.md"):
        if os.path.exists(os.path.join(src, f)):
            shutil.copy(os.path.join(src, f), os.path.join(dst, f))
    rp = os.path.join(dst, "result.json")
    merged = {}
    if os.path.exists(rp):
        try:
            merged = json.load(open(rp)).get("checks", {})       # a rerun of some checks keeps the record of the others
        except Exception:  # noqa
            merged = {}
    merged.update(res)
    with open(rp, "w") as f:
        json.dump({"id": sid, "suite_passes": suite.returncode == 0, "suite": suite.stdout.strip()[-200:], "checks": merged}, f, indent=1)
    return 0 if all(v["silent"] for v in res.values()) and suite.returncode == 0 else 1


if __name__ == "__main__":
    a = sys.argv[1:]
    if a[0] == "benign":
        tier = "quick"
        rest = a[3:]
        if rest and rest[0] in ("quick", "thorough"):
            tier = rest.pop(0)
        sys.exit(benign(a[1], a[2], tier, rest))
    if a[0] == "confirm":
        sys.exit(confirm(a[1], a[2], a[3]))
    if a[0] == "detect":
        tier = "quick"
        rest = a[2:]
        if rest and rest[0] in ("quick", "thorough"):
            tier = rest.pop(0)
        sys.exit(detect(a[1], tier, rest))
