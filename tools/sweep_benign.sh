#!/bin/sh
# usage: sweep_benign.sh [parallelism]  -- reruns every behaviour-preserving change (seeded/benign/*) against the checks it was first run with:
# every check must stay silent.  Prints one line per (change, check).
cd "$(dirname "$0")/.." || exit 2
PAR=${1:-2}
mkdir -p /tmp/benign_src
ls seeded/benign | xargs -P "$PAR" -I{} sh -c 'rm -rf /tmp/benign_src/{}; cp -r seeded/benign/{} /tmp/benign_src/{}; props=$(/venv/bin/python -c "import json;print(\" \".join(json.load(open(\"seeded/benign/{}/result.json\"))[\"checks\"].keys()))"); timeout 14000 tools/seeded.py benign /tmp/benign_src/{} {} quick $props 2>&1 | grep -v "^WARNING" | cut -c1-200; rm -rf /tmp/benign_src/{}'
