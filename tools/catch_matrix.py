#!/venv/bin/python
"""Rewrites the catch matrix in DESIGN.md (between the CATCH-MATRIX markers) from seeded/<id>/{meta,detect}.json."""
import glob
import json
import os
import re

V = os.path.dirname(os.path.dirname(os.path.abspath(__file__)))
rows = []
for d in sorted(glob.glob(os.path.join(V, "seeded", "[CXM][0-9]*"))):
    sid = os.path.basename(d)
    try:
        meta = json.load(open(os.path.join(d, "meta.json")))
    except Exception:
        continue
    det = json.load(open(os.path.join(d, "detect.json"))) if os.path.exists(os.path.join(d, "detect.json")) else {}
    notes = open(os.path.join(d, "notes.md")).read() if os.path.exists(os.path.join(d, "notes.md")) else ""
    first = ""
    for line in notes.splitlines():
        line = line.strip(" #*-")
        if len(line) > 25:
            first = line
            break
    caught = sorted(k for k, v in det.items() if v.get("detected"))
    missed = sorted(k for k, v in det.items() if not v.get("detected"))
    rows.append((sid, meta["property"], first[:150].replace("|", "/"), ", ".join(caught) or "-", ", ".join(missed) or "-"))
txt = ["Each change was written by a fresh sub-agent that saw only the property text and its own scratch worktree; it is kept only after",
       "`tools/seeded.py confirm` showed, on scratch copies of `/repo`: the patch applies, the 579 baseline tests still pass, the agent's",
       "demonstration passes on the unchanged tree and fails with the change. `tools/seeded.py detect` then ran the registered checks",
       "against a scratch copy with the change applied (`AUDITOK_REPO`), never against `/repo`. `Cxx:quick` in the *caught* column means",
       "that command exited 1 with `VIOLATION` lines; *not flagged* lists other properties' checks that were also run and (correctly or",
       "not) stayed silent -- a change is expected to be caught by the check of the property it was written against.",
       "",
       "| seeded change | written against | what it does (first line of the agent's notes) | caught by | run but not flagged |",
       "|---|---|---|---|---|"]
for r in rows:
    txt.append("| " + " | ".join(r) + " |")
brows = []
for d in sorted(glob.glob(os.path.join(V, "seeded", "benign", "*"))):
    try:
        res = json.load(open(os.path.join(d, "result.json")))
    except Exception:
        continue
    notes = open(os.path.join(d, "notes.md")).read() if os.path.exists(os.path.join(d, "notes.md")) else ""
    first = next((l.strip(" #*-") for l in notes.splitlines() if len(l.strip(" #*-")) > 25), "")
    silent = sorted(k for k, v in res["checks"].items() if v.get("silent"))
    loud = sorted(k for k, v in res["checks"].items() if not v.get("silent"))
    brows.append((res["id"], first[:150].replace("|", "/"), "yes" if res["suite_passes"] else "NO", ", ".join(silent), ", ".join(loud) or "-"))
own = sum(1 for r in rows if any(c.startswith(r[1] + ":") for c in r[3].split(", ")))
ownq = sum(1 for r in rows if (r[1] + ":quick") in r[3].split(", "))
txt.append("")
txt.append(f"{len(rows)} confirmed seeded changes; {own} caught by the check of the property they were written against ({ownq} by its quick command).")
txt += ["", "**Behaviour-preserving changes (false-alarm control).** Seven further sub-agents (two rounds) were given all 20 property statements and asked for",
        "refactorings that keep every property true (renamed private attributes and helpers, changed internal buffering, re-implemented",
        "operators, moved loops, reworded messages; in the second round also different but equivalent ways of calling the standard library:",
        "`Queue.get(True, t)`, `put(x, block=True)`, `join(timeout=None)`, `subprocess.run`, `threading.active_count()`, `mkstemp`, `getparams()`).",
        "`tools/seeded.py benign` applies each to a scratch copy, requires the baseline suite to pass, and runs the checks of the properties whose",
        "code the change touches (plus the extra checks X02-X06 where relevant): every one must exit 0 without a VIOLATION line. One change of the",
        "second round (R7_4: `threading.active_count()` instead of `len(threading.enumerate())` in the command-line wait loop) made C12 alarm: the",
        "harness's stand-in for the `threading` module seen by `cmdline` only had `enumerate`. That was a false alarm of the machinery; the stand-ins for",
        "`time` and `threading` are now full proxies of the real modules with only `sleep` / `enumerate` / `active_count` replaced, and the rerun is silent.", "",
        "| change | what it does | suite passes | checks that stayed silent | checks that raised an alarm |", "|---|---|---|---|---|"]
for r in brows:
    txt.append("| " + " | ".join(r) + " |")
txt.append("")
txt.append(f"{len(brows)} behaviour-preserving changes; {sum(1 for r in brows if r[4] == '-')} left every check silent.")
p = os.path.join(V, "DESIGN.md")
s = open(p).read()
s = re.sub(r"<!-- CATCH-MATRIX-BEGIN -->.*<!-- CATCH-MATRIX-END -->", "<!-- CATCH-MATRIX-BEGIN -->\n" + "\n".join(txt) + "\n<!-- CATCH-MATRIX-END -->", s, flags=re.S)
open(p, "w").write(s)
print(len(rows), "rows;", own, "caught by own property")
