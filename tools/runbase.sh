#!/bin/sh
# usage: runbase.sh <repo dir>   -- runs the pinned baseline suite and compares with BASELINE.json stable_pass
D=${1:-/repo}
J=$(mktemp /tmp/junit.XXXXXX.xml)
cd "$D" && timeout ${RUNBASE_TIMEOUT:-900} /venv/bin/python -m pytest -ra -q -p no:cacheprovider --timeout=900 --continue-on-collection-errors --junitxml=$J >/dev/null 2>&1
J=$J /venv/bin/python - <<'PY'
import json, os, xml.etree.ElementTree as ET
base=set(json.load(open('/root/.vp/BASELINE.json'))['stable_pass'])
try:
    t=ET.parse(os.environ['J'])
except Exception as e:
    print("baseline", len(base), "NO RESULT (suite hung or crashed)", e); raise SystemExit(1)
passed=set()
for tc in t.iter('testcase'):
    ok = not any(c.tag in ('failure','error','skipped') for c in tc)
    name=tc.get('classname')+'::'+tc.get('name')
    if ok: passed.add(name)
miss=sorted(base-passed)
print("baseline", len(base), "passed", len(passed), "missing", len(miss), miss[:10])
raise SystemExit(1 if miss else 0)
PY
rc=$?
rm -f $J
exit $rc
