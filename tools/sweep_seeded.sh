#!/bin/sh
# usage: sweep_seeded.sh [tier] [parallelism]   -- runs every seeded change against the check of its own property
cd "$(dirname "$0")/.." || exit 2
TIER=${1:-quick}
PAR=${2:-3}
ls seeded | grep -v benign | xargs -P "$PAR" -I{} sh -c 'p=$(/venv/bin/python -c "import json;print(json.load(open(\"seeded/{}/meta.json\"))[\"property\"])"); timeout 3000 tools/seeded.py detect {} '"$TIER"' $p 2>&1 | tail -1 | cut -c1-200'
