"""AudioReader checks: C10 (framing / overlap / max_read) and C19 (recorder).

leg M : TLC on ReaderMC: every configuration (n, b, h, lim, rec) of the bound x every history of
        read / rewind / data operations up to MaxOps; invariants C10 (implementation-shaped stack =
        declarative closed form) and C19 (+ C19Replay); every maximal history is exported.
leg R : every exported history is executed on a real AudioReader (source kind, sample format and
        the float spelling of block_dur / hop_dur / max_read rotate over the histories) and every
        returned value compared with the specification's.
leg T : seeded long histories on large inputs with decimal durations, recorded and judged by TLC
        (ReaderTrace).  C10/C19 are exact characterisations: a rejected trace is a violation.
"""
import json
import os
import random
import shutil
import sys
import time
from concurrent.futures import ProcessPoolExecutor
from fractions import Fraction

from . import tlc
from .audio import KINDS, decode, make_audio, make_input, max_ids
from .common import NCPU, REPO, SEED, MachineryError, Verdict, canon, import_auditok, workdir
from .judge import judge

TIERS = {
    "quick": dict(MaxN=4, MaxB=3, MaxOps=6),
    "thorough": dict(MaxN=5, MaxB=4, MaxOps=8),
}
FORMATS = [(1, 1), (2, 1), (2, 2), (4, 1), (1, 3), (4, 2), (2, 3)]


def mc_cfg(t, invs, export=True, fix=True, useful="Useful"):
    c = f"CONSTANTS MaxN = {t['MaxN']} MaxB = {t['MaxB']} MaxOps = {t['MaxOps']} FixD3 = {'TRUE' if fix else 'FALSE'}\nSPECIFICATION Spec\n"
    c += "".join(f"INVARIANT {i}\n" for i in invs)
    c += f"CONSTRAINT {useful}\n"
    if export:
        c += "CONSTRAINT Export\n"
    return c + "CHECK_DEADLOCK TRUE\n"


def exact_floor(x, sr):
    """(floor of the exact product, safe?) for the float x: safe iff the exact product is an integer or at
    least 0.05 away from one (there float and exact arithmetic agree -- DESIGN.md section 7)."""
    p = Fraction(x) * sr
    fl = p.numerator // p.denominator
    fr = p - fl
    return fl, (fr == 0 or Fraction(1, 20) <= fr <= Fraction(19, 20))


def exact_round(x, sr):
    p = Fraction(x) * sr
    fl = p.numerator // p.denominator
    fr = p - fl
    safe = abs(fr - Fraction(1, 2)) >= Fraction(1, 20)
    return (fl + 1 if fr > Fraction(1, 2) else fl), safe


def run_history(util, c, ops, kind, sr, sw, ch, durs, tmpdir, use_recorder_class=False, tag="a"):
    """Execute ops on a real AudioReader; returns (log, info)."""
    data = make_audio(c["n"], sw, ch)
    if kind == "source_positioned":
        # a BufferAudioSource object that already stands somewhere: `pre` foreign samples (ids above n) come first and the caller has moved
        # the position past them through the public setter; the reader's stream is what follows
        from auditok import io as _aio
        pre = 1 + (c["n"] + c["b"]) % 5
        if c["n"] + pre + 1 <= max_ids(sw, ch):
            src_ = _aio.BufferAudioSource(make_audio(pre, sw, ch, first=c["n"] + 1) + data, sr, sw, ch)
            src_.position = pre
            inp, kw, cleanup = src_, {}, (lambda: None)
        else:
            inp, kw, cleanup = make_input("source", data, sr, sw, ch, tmpdir, tag)
    else:
        inp, kw, cleanup = make_input(kind, data, sr, sw, ch, tmpdir, tag)
    log = []
    info = {}
    try:
        args = dict(block_dur=durs["block_dur"], hop_dur=durs.get("hop_dur"), max_read=durs.get("max_read"))
        try:
            if c["rec"] and use_recorder_class:
                r = util.Recorder(inp, **args, **kw)
            else:
                r = util.AudioReader(inp, record=c["rec"], **args, **kw)
        except Exception as exc:  # noqa
            return [{"op": "construct", "k": type(exc).__name__, "ids": []}], info
        info = {"block_size": r.block_size, "hop_size": r.hop_size, "block_dur": r.block_dur,
                "sr": r.sr, "sw": r.sw, "ch": r.ch}
        if "open" not in ops and "never-open" not in ops:
            r.open()
        ops = [o_ for o_ in ops if o_ != "never-open"]
        for op in ops:
            try:
                if op == "open":
                    r.open()
                    log.append({"op": "open", "k": "ok", "ids": []})
                elif op == "read":
                    k, ids = decode(r.read(), sw, ch)
                    log.append({"op": "read", "k": k, "ids": ids})
                elif op == "rewind":
                    r.rewind()
                    log.append({"op": "rewind", "k": "ok", "ids": []})
                elif op == "close":
                    r.close()
                    log.append({"op": "close", "k": "ok", "ids": []})
                else:
                    k, ids = decode(r.data, sw, ch)
                    if k == "empty":     # an empty recording is a legitimate value of .data
                        k = "blk"
                    log.append({"op": "data", "k": k, "ids": ids})
            except Exception as exc:  # noqa
                from auditok.exceptions import AudioIOError
                log.append({"op": op, "k": "AudioIOError" if isinstance(exc, (AudioIOError, OSError)) else type(exc).__name__, "ids": []})
        try:
            r.close()
        except Exception:
            pass
    finally:
        cleanup()
    return log, info


def spec_log(entries):
    out = []
    for e in entries:
        k = e["k"]
        if e["op"] == "data" and k == "blk":
            pass
        out.append({"op": e["op"], "k": k, "ids": list(e["ids"])})
    return out


def _variant(c, i):
    """Deterministic choice of source kind / format / float spelling for behaviour number i."""
    kind = KINDS[i % len(KINDS)]
    sw, ch = FORMATS[(i // 7) % len(FORMATS)]
    sr = 8
    durs = {"block_dur": c["b"] / sr}
    if c["h"] < c["b"]:
        durs["hop_dur"] = c["h"] / sr
    elif i % 3 == 0:
        durs["hop_dur"] = c["b"] / sr
    elif i % 3 == 1:
        # hop_dur < block_dur in seconds although both are the same number of samples: overlap reader with zero overlap
        durs["block_dur"] = (c["b"] + 0.5) / sr
        durs["hop_dur"] = (c["b"] + 0.25) / sr
    if c["lim"] >= 0:
        g = (0, 0.25, -0.25, 0.5, -0.5)[(i // 5) % 5]
        if abs(g) == 0.5 and c["lim"] % 2:
            g = 0.25          # exact ties round to the EVEN neighbour: only even limits can be spelled as a tie
        mr = (c["lim"] + g) / sr
        durs["max_read"] = max(0.0, mr)
    return kind, sr, sw, ch, durs


def _replay_chunk(args):
    chunk, base, tmpdir = args
    sys.path.insert(0, REPO)
    from auditok import util
    bad = []
    d = os.path.join(tmpdir, f"w{os.getpid()}")
    os.makedirs(d, exist_ok=True)
    for j, b in enumerate(chunk):
        c = b["c"]
        exp = spec_log(b["log"])
        kind, sr, sw, ch, durs = _variant(c, base + j)
        ops_ = [e["op"] for e in exp]
        if "open" not in ops_ and b.get("closed"):
            ops_ = ops_ + ["never-open"]          # a history whose reads all happen before any open(): keep the reader closed
        got, info = run_history(util, c, ops_, kind, sr, sw, ch, durs, d, use_recorder_class=(base + j) % 2 == 0)
        # on a CLOSED reader the specification leaves open whether a read raises an I/O error or answers None where the code may do either
        # (nothing visible before open(); exhausted limiter or dead overlap generator after close()): positions where the reader is closed
        first_open = next((k_ for k_, e_ in enumerate(exp) if e_["op"] == "open"), None)
        is_open = not (first_open is not None and not any(e_["op"] == "close" for e_ in exp[:first_open])) and not ("open" not in ops_ and b.get("closed"))
        rewound = False
        for k_ in range(min(len(exp), len(got))):
            e_ = exp[k_]
            if not is_open and e_["op"] == "read" and got[k_]["op"] == "read" and {e_["k"], got[k_]["k"]} <= {"AudioIOError", "none"} \
                    and (c["lim"] == 0 or any(x_["op"] == "close" for x_ in exp[:k_])):
                got[k_] = dict(e_)
            if e_["op"] == "open":
                is_open = True
            elif e_["op"] == "close":
                is_open = False
            elif e_["op"] == "rewind" and e_["k"] == "ok":
                if not rewound:
                    is_open = True
                rewound = True
        ok = got == exp and info.get("block_size") == c["b"] and info.get("hop_size") == c["h"]
        if not ok:
            bad.append({"c": c, "kind": kind, "fmt": [sr, sw, ch], "durs": durs, "expected": exp, "got": got, "info": info})
    return len(chunk), bad


def replay_behaviours(behaviours, tmpdir):
    n = len(behaviours)
    step = max(100, n // (NCPU * 4))
    jobs = [(behaviours[i:i + step], i, tmpdir) for i in range(0, n, step)]
    tot = 0
    bad = []
    with ProcessPoolExecutor(max_workers=NCPU) as ex:
        for a, b in ex.map(_replay_chunk, jobs):
            tot += a
            bad += b
    return tot, bad


def first_diff(exp, got):
    for i, (a, b) in enumerate(zip(exp, got)):
        if a != b:
            return i, a, b
    if len(exp) != len(got):
        return min(len(exp), len(got)), None, None
    return None


def classify(prop, exp, got, c):
    """Which property does a mismatching history break?  read results -> C10; data / rewind / replay after a
    rewind -> C19 (a wrong read after a rewind is both: replay is C19's statement, framing is C10's)."""
    d = first_diff(exp, got)
    if d is None:
        return {"C10"}      # only block_size / hop_size differ
    i = d[0]
    op = (exp[i] if i < len(exp) else got[i])["op"]
    after_rewind = any(e["op"] == "rewind" and e["k"] == "ok" for e in exp[:i])
    s = set()
    if op == "read":
        s.add("C10")
        if after_rewind:
            s.add("C19")
    else:
        s.add("C19")
    return s


def gen_history(rng, tier):
    big = 300 if tier == "quick" else 3000
    n = rng.choice([0, 1, 2, 3, rng.randint(0, 20), rng.randint(0, big)])
    sw, ch = rng.choice(FORMATS)
    while max_ids(sw, ch) < n + 1:
        sw, ch = rng.choice(FORMATS)
    sr = rng.choice([8, 10, 16, 100, 1000, 8000, 16000, 44100])
    b = rng.choice([1, 2, 3, rng.randint(1, max(1, n // 3 + 2)), rng.randint(1, max(1, n + 2))])
    h = b if rng.random() < .4 else rng.randint(1, b)
    lim = -1 if rng.random() < .4 else rng.choice([0, 1, rng.randint(0, n + b + 1), max(0, n - 1), n, n + 1])
    rec = rng.random() < .6
    for _ in range(50):
        bd = (b + rng.choice([0.3, 0.5, 0.7] + ([0] if sr in (8, 16) else []))) / sr
        if exact_floor(bd, sr) == (b, True):
            break
    else:
        return None
    durs = {"block_dur": bd}
    if h < b:
        for _ in range(50):
            hd = (h + rng.choice([0.3, 0.5, 0.7] + ([0] if sr in (8, 16) else []))) / sr
            if exact_floor(hd, sr) == (h, True) and hd < bd:
                durs["hop_dur"] = hd
                break
        else:
            return None
    elif rng.random() < .3:
        durs["hop_dur"] = bd
    elif rng.random() < .4:
        for _ in range(50):
            hd = (b + rng.choice([0.1, 0.2, 0.3, 0.5])) / sr
            if exact_floor(hd, sr) == (b, True) and hd < bd:
                durs["hop_dur"] = hd       # same size in samples, shorter in seconds: overlap reader, zero overlap
                break
    if lim >= 0:
        for _ in range(50):
            mr = max(0.0, (lim + rng.choice([-0.4, -0.3, 0, 0.3, 0.4])) / sr)
            if exact_round(mr, sr) == (lim, True):
                durs["max_read"] = mr
                break
        else:
            return None
    c = {"n": n, "b": b, "h": h, "lim": lim, "rec": rec}
    vis = n if lim < 0 else min(n, lim)
    nblocks = 1 + max(0, -(-(vis - b) // h)) if vis > 0 else 0
    ops = []
    closed_once = False
    passes = 0
    for _ in range(rng.randint(1, 4) if rec else 1):
        k = rng.choice([0, 1, nblocks // 2, nblocks, nblocks + 1, nblocks + 3, rng.randint(0, nblocks + 3)])
        ops += ["read"] * min(k, 80)
        if rng.random() < .3:
            ops.append("data")
        closing = rec and not closed_once and rng.random() < .25
        if closing:
            # close() before the rewind: what was recorded must still be what the rewind exposes
            closed_once = True
            ops.append("close")
            ops += ["read"] * rng.choice([0, 0, 1, 2]) + (["data"] if rng.random() < .3 else [])
        ops.append("rewind")
        if closing and passes > 0:
            ops.append("open")           # a later rewind leaves a closed recorder closed: open() it again
        passes += 1
        if rng.random() < .5:
            ops.append("data")
    ops = ["read"] * rng.choice([0, 0, 0, 1, 2, 3]) + ["open"] + ops          # reads before open() raise and leave no trace
    if not rec:
        # non-recording readers: data / rewind raise AttributeError; one probe of each is enough
        ops = [o for o in ops if o in ("read", "open")] + rng.choice([[], ["rewind"], ["data"], ["data", "rewind"], ["rewind", "read", "data"]])
    return c, ops, rng.choice(KINDS + ["source_positioned"]), sr, sw, ch, durs


def long_history(rng):
    """More reads than any internal block cache could hold (thousands of one-sample blocks), replayed after the rewind."""
    n = 4200 + rng.randint(0, 300)
    c = {"n": n, "b": 1, "h": 1, "lim": -1, "rec": True}
    ops = ["open"] + ["read"] * (n + 1) + ["rewind", "data"] + ["read"] * (n + 1) + ["rewind"] + ["read"] * 3
    return c, ops, rng.choice(["bytes", "raw_lazy", "source_positioned"]), 1000, 2, 1, {"block_dur": 1.5 / 1000}


def reject_table(util, tmpdir):
    """C10: block_dur shorter than one sample or hop_dur > block_dur are rejected with an error; all else accepted."""
    rows = []
    for sr in (8, 10, 100):
        for b in range(0, 4):
            for h in range(1, 6):
                for kind in ("bytes", "wav"):
                    c = {"n": 6, "b": b, "h": min(h, b) if b else 1, "lim": -1, "rec": False}
                    bd = (b + 0.5) / sr
                    hd = (h + 0.5) / sr if h != b else bd
                    log, info = run_history(util, c, [], kind, sr, 2, 1, {"block_dur": bd, "hop_dur": hd}, tmpdir)
                    rejected = bool(log) and log[0]["op"] == "construct"
                    expect = (b < 1) or (h > b)
                    rows.append((sr, b, h, kind, expect, rejected, log[0]["k"] if log else None))
            # hop_dur larger than block_dur by less than one sample period: still "hop_dur > block_dur", still an error
            for b in range(1, 4):
                bd = b / sr
                for hd in ((b + 0.25) / sr, (b + 0.5) / sr, b / sr + 1e-6):
                    log, info = run_history(util, {"n": 6, "b": b, "h": b, "lim": -1, "rec": False}, [], "bytes", sr, 2, 1,
                                            {"block_dur": bd, "hop_dur": hd}, tmpdir)
                    rejected = bool(log) and log[0]["op"] == "construct"
                    rows.append((sr, b, f"{b}+ ({hd!r} s > {bd!r} s)", "bytes", True, rejected, log[0]["k"] if log else None))
    return rows


def check(prop, tier, replay=None):
    import_auditok()
    from auditok import util
    V = Verdict(prop, tier)
    wd = workdir("reader_" + prop)
    tmpdir = os.path.join(wd, "audio")
    os.makedirs(tmpdir, exist_ok=True)
    rng = random.Random(SEED * 1000 + int(prop[1:]))
    V.assumptions += [
        "TLC/SANY/CommunityModules, CPython, wave module, the projection bytes<->sample ids in harness/audio.py",
        "durations are generated so that the exact product with the rate is an integer or >= 0.05 away from the rounding switch point (observation O1)",
        "hop sizes below one sample are not generated (the property is silent about them)",
    ]
    t = TIERS[tier]
    invs = ["TypeOK", "C10", "AbsShape"] if prop == "C10" else ["TypeOK", "C19", "C19Replay"]
    # thorough: the large bound is explored (and exported) without close(); histories with a close() get the quick bound plus one operation
    res = tlc.run("ReaderMC", mc_cfg(t, invs, useful="Useful" if tier == "quick" else "UsefulNoClose"), wd, name="mc", timeout=3000, mem="12g")
    tlc.require_ok(res, "leg M")
    V.add_model("M", res)
    if res["violated"] or not res["ok"]:
        raise MachineryError(f"leg M: {res['violated']} / {res['error']} in the specification itself\n" + tlc.counterexample(res, 60))
    if tier != "quick":
        res_c = tlc.run("ReaderMC", mc_cfg(dict(MaxN=4, MaxB=3, MaxOps=7), invs), wd, name="mc_close", timeout=3000, mem="12g")
        tlc.require_ok(res_c, "leg M (close)")
        V.add_model("M:close", res_c)
        if res_c["violated"] or not res_c["ok"]:
            raise MachineryError(f"leg M (close): {res_c['violated']} / {res_c['error']} in the specification itself\n" + tlc.counterexample(res_c, 60))
        extra = [b for b in res_c["json"] if any(e["op"] == "close" for e in b["log"])]
        rng.shuffle(extra)
        res["json"] = list(res["json"]) + extra[:200000]
        del res_c
    dead = [a for a in ("ReadFixed", "ReadOvInit", "ReadOvRun", "ReadOvDead", "Rewind", "Data") if res["actions"].get(a, [0, 0])[0] == 0]
    if dead:
        raise MachineryError(f"leg M: actions never taken: {dead}")
    V.cov["exhaustive"] = True
    if prop == "C10":
        # the framing closed form for ALL source lengths, block / hop sizes, limits and any number of reads: inductive invariant of the integer
        # abstraction ReaderInt (Apalache); AbsShape above ties the abstraction to the registers of Reader on the grid
        obligations = [("base", ["--init=Init", "--inv=IndInv", "--length=0"], True), ("step", ["--init=IndInit", "--inv=IndInv", "--length=1"], True),
                       ("vacuity", ["--init=IndInit", "--inv=AlwaysFull", "--length=1"], False)]
        import shutil as _sh
        import subprocess as _sp
        from .common import SPEC
        _sh.copy(os.path.join(SPEC, "ReaderInt.tla"), wd)
        jtmp = os.path.join(wd, "jtmp")
        os.makedirs(jtmp, exist_ok=True)
        detail, done = {}, 0
        for name, args, expect_ok in obligations:
            t1 = time.time()
            try:
                p_ = _sp.run(["apalache-mc", "check", "--cinit=CInit", *args, f"--out-dir={wd}/apalache_{name}", "ReaderInt.tla"], cwd=wd, capture_output=True, text=True,
                             timeout=(240 if tier == "quick" else 900), env=dict(os.environ, JVM_ARGS=(os.environ.get("JVM_ARGS", "") + " -Djava.io.tmpdir=" + jtmp).strip()))
                ok, bad, out = "EXITCODE: OK" in p_.stdout, "EXITCODE: ERROR (12)" in p_.stdout, p_.stdout[-400:]
            except _sp.TimeoutExpired:
                ok, bad, out = False, False, "timeout"
            detail[name] = {"holds": ok, "refuted": bad, "wall_s": round(time.time() - t1, 1)}
            if expect_ok and bad:
                raise MachineryError(f"Apalache refutes obligation {name} of ReaderInt: {out}")
            if not expect_ok and ok:
                raise MachineryError(f"Apalache accepts the false formula of ReaderInt (vacuity control): {out}")
            done += 1 if (ok if expect_ok else bad) else 0
        V.leg("unbounded", tool="apalache-mc 0.58", module="ReaderInt", obligations=3, discharged=done, detail=detail,
              checker_cmd="apalache-mc check --cinit=CInit --init=Init|IndInit --inv=IndInv|AlwaysFull --length=0|1 ReaderInt.tla")
        V.cov["obligations"] = 3
        V.cov["discharged"] = done
    seen = set()
    behaviours = []
    for b in res["json"]:
        k = canon(b)
        if k not in seen:
            seen.add(k)
            behaviours.append(b)

    # ---- leg R
    t0 = time.time()
    if tier == "quick":
        # histories with a close() add 60 % to the export: the quick tier replays a seeded sample of them (and every history without)
        withc = [b for b in behaviours if any(e["op"] == "close" for e in b["log"])]
        rng.shuffle(withc)
        behaviours = [b for b in behaviours if not any(e["op"] == "close" for e in b["log"])] + withc[:25000]
    tot, bad = replay_behaviours(behaviours, tmpdir)
    V.cov["traces_validated_against_impl"] += tot
    V.count(tot, (canon(b) for b in behaviours if any(e["k"] == "blk" for e in b["log"])))
    nviol = 0
    for m in bad:
        props = classify(prop, m["expected"], m["got"], m["c"])
        if prop in props:
            nviol += 1
            d = first_diff(m["expected"], m["got"])
            V.violation({"c": m["c"], "ops": [e["op"] for e in m["expected"]][: (d[0] + 1 if d else None)]},
                        f"AudioReader {m['c']} kind={m['kind']} fmt={m['fmt']} durs={m['durs']}: operation #{d[0] if d else '-'} "
                        f"returned {d[2] if d else m['info']} where the specification says {d[1] if d else (m['c']['b'], m['c']['h'])}",
                        {"leg": "R", **m})
        else:
            V.divergence({"c": m["c"], "first_diff": first_diff(m["expected"], m["got"])})
    V.leg("R", behaviours=tot, mismatches=len(bad), wall_s=round(time.time() - t0, 2))
    if behaviours:
        b = max(behaviours[:2000], key=lambda x: sum(len(e["ids"]) for e in x["log"]))
        V.sample({"leg": "R", "c": b["c"], "history": [[e["op"], e["k"], e["ids"]] for e in b["log"]]})

    if prop == "C10":
        rows = reject_table(util, tmpdir)
        wrong = [r for r in rows if r[4] != r[5]]
        V.leg("construct", cases=len(rows), wrong=len(wrong))
        V.count(len(rows), (f"rej{r[:4]}" for r in rows if r[4]))
        for r in wrong:
            V.violation({"construct": r[:4]}, f"AudioReader(sr={r[0]}, block={r[1]}+.5 samples, hop={r[2]}+.5 samples, {r[3]}): "
                        f"expected {'an error' if r[4] else 'success'}, got {r[6] or 'success'}", {"leg": "construct", "row": r})

    # ---- leg T
    t0 = time.time()
    traces = []
    budget = 12000 if tier == "quick" else 150000
    ev = 0
    longs = [long_history(rng) for _ in range(1 if tier == "quick" else 4)] if prop == "C19" else []
    while ev < budget:
        g = longs.pop() if longs else gen_history(rng, tier)
        if g is None:
            continue
        c, ops, kind, sr, sw, ch, durs = g
        log, info = run_history(util, c, ops, kind, sr, sw, ch, durs, tmpdir, use_recorder_class=rng.random() < .5, tag="t")
        tr = {"c": c, "ev": log, "kind": kind, "fmt": [sr, sw, ch], "durs": durs, "info": info, "nomon": len(log) > 3000}
        traces.append(tr)
        ev += len(log) + sum(len(e["ids"]) for e in log) // 20
    cfg = "CONSTANTS MaxN = 0 MaxB = 0 MaxOps = 100000 FixD3 = TRUE\nSPECIFICATION TSpec\nCONSTRAINT Mon\nPOSTCONDITION Post\nCHECK_DEADLOCK FALSE\n"
    rows, st = judge("ReaderTrace", cfg, traces, wd, "rt", strip=lambda x: {"c": x["c"], "ev": x["ev"], "nomon": x.get("nomon", False)},
                     weight=lambda x: len(x["ev"]) + sum(len(e["ids"]) for e in x["ev"]) // 10)
    V.cov["states"] += st
    for tr, row in zip(traces, rows):
        reached, total = row[2], row[3]
        c = tr["c"]
        size_ok = tr["info"].get("block_size") == c["b"] and tr["info"].get("hop_size") == c["h"]
        constructed = not (tr["ev"] and tr["ev"][0]["op"] == "construct")
        if not constructed:
            if prop == "C10":
                V.violation({"c": c, "durs": tr["durs"]}, f"AudioReader construction raised {tr['ev'][0]['k']} for a valid configuration {c} {tr['durs']} kind={tr['kind']}",
                            {"leg": "T", **tr})
            continue
        bad_here = reached != total or row[4] or row[5] or not size_ok
        if not bad_here:
            continue
        i = reached - 1
        e = tr["ev"][i] if i < len(tr["ev"]) else None
        after_rewind = any(x["op"] == "rewind" and x["k"] == "ok" for x in tr["ev"][:i])
        props = set()
        if not size_ok or row[4]:
            props.add("C10")
        if row[5]:
            props.add("C19")
        if reached != total and e is not None:
            if e["op"] == "read":
                props.add("C10")
                if after_rewind:
                    props.add("C19")
            else:
                props.add("C19")
        if prop in props:
            V.violation({"c": c, "ops": [x["op"] for x in tr["ev"][:i + 1]], "kind": tr["kind"]},
                        f"AudioReader {c} kind={tr['kind']} fmt={tr['fmt']} durs={tr['durs']} sizes={tr['info']}: event #{i} {str(e)[:200]} "
                        f"is not explained by the specification (monitors C10={row[4]} C19={row[5]})", {"leg": "T", **tr})
        else:
            V.divergence({"c": c, "event": i, "what": e, "before": [[x["op"], x["k"]] for x in tr["ev"][max(0, i - 4):i]], "kind": tr["kind"], "row": row})
    V.cov["traces_validated_against_impl"] += len(traces)
    V.count(len(traces), (canon([t_["c"], [e["op"] for e in t_["ev"]], t_["kind"]]) for t_ in traces if any(e["k"] == "blk" for e in t_["ev"])))
    V.leg("T", traces=len(traces), events=sum(len(t_["ev"]) for t_ in traces), wall_s=round(time.time() - t0, 2))
    big = max(traces, key=lambda t_: len(t_["ev"]))
    V.sample({"leg": "T", "c": big["c"], "kind": big["kind"], "fmt": big["fmt"], "durs": big["durs"],
              "ops": "".join({"read": "r", "rewind": "W", "data": "d", "construct": "C", "open": "O", "close": "X"}[e["op"]] for e in big["ev"])})
    shutil.rmtree(tmpdir, ignore_errors=True)
    return V.finish(
        rule="leg M: TLC exhaustive over all configurations (n,b,h,lim,rec) x operation histories of the bound; leg R: every exported "
             "maximal history executed on a real AudioReader (7 source kinds, 7 sample formats, 3 float spellings of max_read rotate); "
             "leg T: seeded long histories judged by TLC. distinct = canonical (configuration, history[, kind]); non-trivial = at least one block returned")
