"""split() checks: C05 (regions are the input's own bytes at the reported times), C06 (durations counted in
windows, accept/reject table), C09 (container / alias independence) and the split() part of C08.

Every run of the real split() is recorded at the API boundary (validator decisions per window, regions
reaching the consumer, reads of the underlying source, errors) and judged by TLC on SplitTrace.tla, which
recomputes the tokenizer parameters from the durations (module Durations) and evaluates the tokenizer
monitors of TokenizerProps on the analysis windows.
"""
import itertools
import math
import os
import random
import shutil
import sys
import time
import wave
from fractions import Fraction

from . import tlc
from .audio import FakeStdin
from .common import NCPU, REPO, SEED, MachineryError, Verdict, canon, import_auditok, workdir
from .judge import judge

U = 10000
AMP = {1: (100, 2), 2: (20000, 10), 4: (10 ** 9, 10)}
ETH = 30


def synth(pattern, B, tail, sw, ch, quiet_channels=(), amp=None):
    """Audio whose window k (B samples; the last one `tail` samples) is loud iff pattern[k]; every sample
    value also encodes its position so that a slice taken at a wrong offset has different bytes."""
    hi, lo = amp or AMP[sw]
    out = bytearray()
    n = 0
    for k, v in enumerate(pattern):
        size = B if k < len(pattern) - 1 else tail
        for j in range(size):
            for c in range(ch):
                if v and c not in quiet_channels:
                    val = hi + ((n * 7 + c) % 19) * (1 if (sw == 1 or amp) else 37)
                    if (n + c) % 2:
                        val = -val
                else:
                    val = (n + c) % (lo + 1)
                out += int(val).to_bytes(sw, "little", signed=True)
            n += 1
    return bytes(out), n


def safe_floor(x, sr):
    """floor(x*sr) where float and exact arithmetic agree; None for the float-ambiguous inputs (O1)."""
    exact = Fraction(str(x)) * sr if isinstance(x, float) else Fraction(x) * sr
    fl = exact.numerator // exact.denominator
    fr = exact - fl
    fval = int(float(Fraction(x) * sr))       # correctly rounded product of the float, truncated: what IEEE gives
    if fr == 0:
        return fl if fval == fl else None
    if Fraction(1, 20) <= fr <= Fraction(19, 20):
        return fl
    return None


def safe_round(x, sr):
    exact = Fraction(str(x)) * sr
    fl = exact.numerator // exact.denominator
    fr = exact - fl
    if abs(fr - Fraction(1, 2)) < Fraction(1, 20):
        return None
    if fr < Fraction(1, 20) or fr > Fraction(19, 20):
        # near an integer: rounding is insensitive to the last bit
        return fl + (1 if fr > Fraction(1, 2) else 0)
    return fl + (1 if fr > Fraction(1, 2) else 0)


class Recorder:
    """Event log + the wrappers that write to it."""

    def __init__(self, core, util, aio, sw, ch):
        self.ev = []
        self.core, self.util, self.aio = core, util, aio
        self.sw, self.ch = sw, ch
        self.bps = sw * ch
        self.amp = None

    def custom_validator(self, kind="callable"):
        hi, lo = self.amp or AMP[self.sw]
        sw, ev, bps = self.sw, self.ev, self.bps

        def is_valid(win):
            n = len(win) // bps
            v = any(abs(int.from_bytes(win[o:o + sw], "little", signed=True)) > lo for o in range(0, len(win), sw))
            ev.append({"e": "W", "v": bool(v), "n": n})
            return v
        if kind == "callable":
            return is_valid

        class Val(self.util.DataValidator):
            def is_valid(self_, win):
                return is_valid(win)
        return Val()

    def logging_energy_validator_class(self):
        ev, bps = self.ev, self.bps
        Base = self.util.AudioEnergyValidator

        class LoggingEnergyValidator(Base):
            def is_valid(self_, data):
                v = bool(Base.is_valid(self_, data))
                ev.append({"e": "W", "v": v, "n": len(data) // bps})
                return v
        return LoggingEnergyValidator

    def logging_source(self, data, sr):
        ev, bps = self.ev, self.bps

        class LoggingSource(self.aio.BufferAudioSource):
            def read(self_, size):
                blk = super().read(size)
                if blk is None:
                    ev.append({"e": "EOS"})
                else:
                    ev.append({"e": "SR", "got": len(blk) // bps})
                return blk
        return LoggingSource(data, sr, self.sw, self.ch)


def run_split(mods, data, sr, sw, ch, durs, flags, container="bytes", spelling=None, tmpdir=None,
              validator="custom", max_read=None, method=False, val_kind="callable", limit=None, extra=None, region_obj=None):
    """Run the real split() once and return the event list.
    durs: dict(min_dur, max_dur, max_silence, analysis_window) floats; flags: (drop, strict).
    spelling: dict name -> 'long' | 'short' | 'both' for the alias pairs."""
    core, util, aio = mods
    rec = Recorder(core, util, aio, sw, ch)
    rec.amp = (extra or {}).get("amp")
    ev = rec.ev
    spelling = spelling or {}
    bps = sw * ch
    kw = {}
    cleanup = []

    def put(long, short, value, wrong):
        s = spelling.get(long, "long")
        if s == "long":
            kw[long] = value
        elif s == "short":
            kw[short] = value
        else:
            kw[long] = value
            kw[short] = wrong

    inp = data
    need_params = True
    reader_input = False
    base_off = (extra or {}).get("preread", 0) * bps if container in ("source_preread", "raw_lazy_preread") else 0
    if container in ("bytes",):
        inp = data
    elif container in ("region", "region_conflict", "region_started"):
        inp = region_obj if region_obj is not None else core.AudioRegion(data, sr, sw, ch, *((1.75,) if container == "region_started" else ()))
        need_params = False
        if container == "region_conflict":
            # a region knows its own parameters: whatever the caller passes for them (a settings dict written for other files) is ignored
            kw.update({"sampling_rate": sr * 2 + 1, "sample_width": 4 if sw != 4 else 2, "channels": ch + 1} if (len(data) // 7) % 2 else
                      {"sr": sr * 2 + 1, "sw": 4 if sw != 4 else 2, "ch": ch + 1})
    elif container == "source":
        inp = aio.BufferAudioSource(data, sr, sw, ch)
        need_params = False
    elif container in ("source_preread", "raw_lazy_preread"):
        # a source that is already open and partly consumed when it is handed to split(): what remains is what gets split,
        # whether the file was loaded eagerly or lazily
        k0 = (extra or {}).get("preread", 0)
        if container == "source_preread":
            inp = aio.BufferAudioSource(data, sr, sw, ch)
        else:
            path = os.path.join(tmpdir, "p.raw")
            with open(path, "wb") as f:
                f.write(data)
            inp = aio.get_audio_source(path, sampling_rate=sr, sample_width=sw, channels=ch, large_file=True)
        inp.open()
        if k0 > 0:
            inp.read(k0)
        need_params = False
    elif container == "lazysource":
        inp = rec.logging_source(data, sr)
        need_params = False
    elif container == "reader":
        aw = durs["analysis_window"]
        inp = util.AudioReader(data, block_dur=aw, sampling_rate=sr, sample_width=sw, channels=ch,
                               **({"hop_dur": extra["hop_dur"]} if extra and "hop_dur" in extra else {}),
                               **({"max_read": max_read} if max_read is not None else {}))
        need_params = False
        reader_input = True
    elif container in ("raw", "raw_lazy", "raw_fmt", "raw_noext"):
        name = {"raw": "a.raw", "raw_lazy": "a.raw", "raw_fmt": "a.dat", "raw_noext": "a.dat"}[container]
        path = os.path.join(tmpdir, name)
        with open(path, "wb") as f:
            f.write(data)
        inp = path
        if container == "raw_lazy":
            kw["large_file"] = True
        if container in ("raw_fmt", "raw_noext"):
            put("audio_format", "fmt", "raw", "wav")
    elif container in ("wav", "wav_lazy", "wav_fmt", "wav_path"):
        name = "a.wav" if container != "wav_fmt" else "a.bin"
        path = os.path.join(tmpdir, name)
        with wave.open(path, "wb") as w:
            w.setframerate(sr)
            w.setsampwidth(sw)
            w.setnchannels(ch)
            w.writeframes(data)
        inp = path
        if container == "wav_path":
            from pathlib import Path
            inp = Path(path)
        need_params = False
        if container == "wav_lazy":
            kw["large_file"] = True
        if container == "wav_fmt":
            put("audio_format", "fmt", "wave", "raw")
    elif container in ("stdin", "stdin_pipe"):
        old = sys.stdin
        sys.stdin = FakeStdin(data, None if container == "stdin" else [bps + 1, 3, 2 * bps, 1, 7 * bps + 2])
        cleanup.append(lambda: setattr(sys, "stdin", old))
        inp = "-"
    if need_params:
        put("sampling_rate", "sr", sr, sr * 2 + 1)
        put("sample_width", "sw", sw, 4 if sw != 4 else 2)
        put("channels", "ch", ch, ch + 1)
    if reader_input and extra and extra.get("reader_aw"):
        # C06: "for an AudioReader input w is the reader's block duration": an analysis_window passed along with a reader (a shared dict of
        # split options) must not count
        kw[extra["reader_aw"][0]] = extra["reader_aw"][1]
    if not reader_input:
        put("analysis_window", "aw", durs["analysis_window"], durs["analysis_window"] * 3)
        if max_read is not None:
            put("max_read", "mr", max_read, max_read / 2 + 0.013)
    patched = None
    if validator == "custom":
        always_false = (lambda w: False)
        put("validator", "val", rec.custom_validator(val_kind), always_false)
    else:
        # energy validator built by split() itself: intercepted from outside by wrapping the class's is_valid (independent of
        # how core.py imports the class)
        Base = util.AudioEnergyValidator
        patched = Base.is_valid
        _ev, _bps = rec.ev, rec.bps

        def logged_is_valid(self_, d_):
            v_ = bool(patched(self_, d_))
            _ev.append({"e": "W", "v": v_, "n": len(d_) // _bps})
            return v_
        Base.is_valid = logged_is_valid
        put("energy_threshold", "eth", (extra or {}).get("eth", ETH), 95)
        if extra and "use_channel" in extra:
            put("use_channel", "uc", extra["use_channel"], extra.get("use_channel_wrong"))
    drop, strict = flags
    try:
        try:
            if method:
                gen = inp.split(durs["min_dur"], durs["max_dur"], durs["max_silence"], drop, strict, **kw)
            else:
                gen = core.split(inp, durs["min_dur"], durs["max_dur"], durs["max_silence"], drop, strict, **kw)
            k = 0
            for r in gen:
                first = r.start * sr
                fi = round(first)
                if abs(first - fi) > 1e-6:
                    fi = -1
                n = len(r)
                ok = (fi >= 0 and bytes(r) == data[base_off + fi * bps:base_off + (fi + n) * bps] and r.sampling_rate == sr
                      and r.sample_width == sw and r.channels == ch and len(r.data) == n * bps)
                tok = (abs((r.end - r.start) - r.duration) < 1e-9 and abs(r.duration - n / sr) < 1e-9
                       and r.meta is not None and r.meta.start == r.start and r.meta.end == r.end)
                ev.append({"e": "REG", "first": fi, "len": n, "ok": bool(ok), "tok": bool(tok)})
                k += 1
                if limit is not None and k >= limit:
                    break
            ev.append({"e": "END"})
        except ValueError:
            ev.append({"e": "ERR", "cls": "ValueError"})
        except Exception as exc:  # noqa
            ev.append({"e": "ERR", "cls": type(exc).__name__})
    finally:
        if patched is not None:
            util.AudioEnergyValidator.is_valid = patched
        for c in cleanup:
            c()
    return ev


def core_split_regions(M, data, case):
    core = M[0]
    rec = Recorder(M[0], M[1], M[2], case["sw"], case["ch"])
    d = to_floats(case["units"])
    return core.split(data, d["min_dur"], d["max_dur"], d["max_silence"], case["flags"][0], case["flags"][1], analysis_window=d["analysis_window"],
                      validator=rec.custom_validator(), sampling_rate=case["sr"], sample_width=case["sw"], channels=case["ch"])


def regs_of(ev):
    return [[e["first"], e["len"]] for e in ev if e["e"] == "REG"]


def cfg_of(units, sr, B, flags, rdr=False, lazy=False):
    mind, maxd, sild, w = units
    if rdr:
        wn, wd = B, sr
    else:
        wn, wd = w, U
    return {"mind": mind, "maxd": maxd, "sild": sild, "wn": wn, "wd": wd, "sr": sr, "B": B,
            "drop": bool(flags[0]), "strict": bool(flags[1]), "rdr": rdr, "lazy": lazy}


def to_floats(units):
    mind, maxd, sild, w = units
    return {"min_dur": mind / U, "max_dur": maxd / U, "max_silence": sild / U, "analysis_window": w / U}


def expected_reject(units, sr, B, rdr=False):
    mind, maxd, sild, w = units
    if mind <= 0 or maxd <= 0 or sild < 0:
        return True
    if not rdr and (w <= 0 or B == 0):
        return True
    num = (lambda d: d * sr) if rdr else (lambda d: d)
    den = (U * B) if rdr else w
    mn = -(-num(mind) // den)
    mx = num(maxd) // den
    sl = num(sild) // den
    return mn > mx or sl >= mx


def rand_pattern(rng, nwin, mn, mx, sl):
    s = []
    style = rng.random()
    while len(s) < nwin:
        if style < .3:
            s.append(rng.random() < rng.choice([.3, .5, .7]))
            continue
        burst = rng.choice([1, mn - 1, mn, mn + 1, mx - 1, mx, mx + 1, 2 * mx, 2 * mx + 1, rng.randint(1, 2 * mx + 2)])
        s += [True if rng.random() < .9 else False for _ in range(max(1, burst))]
        gap = rng.choice([sl - 1, sl, sl + 1, sl + 2, 1, rng.randint(0, 2 * sl + 2)])
        s += [False] * max(0, gap)
    return s[:nwin]


FORMATS = [(1, 1), (2, 1), (2, 2), (4, 1), (1, 3), (4, 2), (2, 4)]
RATES = [8, 10, 16, 100, 1000, 8000, 16000, 22050, 44100]


def gen_case(rng, robust, tier):
    """A split configuration on the 0.1 ms grid.  robust: durations placed half a window away from the
    counting boundaries (C05/C09: insensitive to how quotients are rounded)."""
    for _ in range(200):
        sr = rng.choice(RATES)
        w = rng.choice([1, 2, 5, 10, 20, 25, 50, 100, 125, 250, 500, 1000, 1250, 2500, rng.randint(1, 3000)])
        B = safe_floor(w / U, sr)
        if B is None or B < 1 or B > 400:
            continue
        mx = rng.choice([1, 2, 3, 4, 5, 8, 12])
        mn = rng.randint(1, mx)
        sl = rng.randint(0, mx - 1)
        if robust:
            if w % 2:
                continue
            units = (mn * w - w // 2, mx * w + w // 2, sl * w + w // 2, w)
        else:
            units = (mn * w - rng.choice([0, 0, 0, 1]) * rng.randint(0, w - 1), mx * w + rng.choice([0, 0, 0, 1]) * rng.randint(0, w - 1),
                     sl * w + rng.choice([0, 0, 0, 1]) * rng.randint(0, w - 1), w)
        if max(units) * 1 >= 2 ** 31 // U:
            continue
        sw, ch = rng.choice(FORMATS)
        nwin = rng.choice([0, 1, 2, rng.randint(0, 10), rng.randint(0, 40 if tier == "quick" else 150)])
        if B * nwin > (6000 if tier == "quick" else 40000):
            nwin = max(1, (6000 if tier == "quick" else 40000) // B)
        pat = rand_pattern(rng, nwin, mn, mx, sl)
        tail = rng.choice([B, B, rng.randint(1, B)])
        flags = (rng.random() < .5, rng.random() < .5)
        return dict(sr=sr, sw=sw, ch=ch, B=B, units=units, pat=pat, tail=tail, flags=flags, p=(mn, mx, sl))
    raise MachineryError("no split case generated")


def mods():
    import_auditok()
    from auditok import core, util, io as aio
    return core, util, aio


TCFG = "SPECIFICATION TSpec\nCONSTRAINT Mon\nPOSTCONDITION Post\nCHECK_DEADLOCK FALSE\n"


def judge_split(traces, wd, tag="sp"):
    return judge("SplitTrace", TCFG, traces, wd, tag, strip=lambda x: {"c": x["c"], "ev": x["ev"], "peer": x.get("peer", []), "usepeer": x.get("usepeer", False)})


def describe(tr):
    c = tr["c"]
    pat = "".join("A" if e["v"] else "a" for e in tr["ev"] if e["e"] == "W")
    return (f"split(min_dur={c['mind'] / U}, max_dur={c['maxd'] / U}, max_silence={c['sild'] / U}, analysis_window={c['wn'] / c['wd']:.6g}, "
            f"sr={c['sr']}, drop={c['drop']}, strict={c['strict']}) {tr.get('info', '')} windows={pat[:80]} block={c['B']} -> regions(first,len)="
            f"{regs_of(tr['ev'])[:8]} {[e for e in tr['ev'] if e['e'] == 'ERR']}")


# ------------------------------------------------------------------------------------------------
# C06 decision table + probes
# ------------------------------------------------------------------------------------------------
def c06_cases(rng, tier, M):
    """Grid points (decimal durations incl. quotients not representable in binary floating point) with a
    probe recording: isolated bursts of 1..MinLen+1 windows, one burst longer than MaxLen, bursts with
    internal gaps of MaxSil and MaxSil+1 windows."""
    traces = []
    ws = [1, 2, 5, 10, 20, 25, 50, 100, 250, 1000]
    rates = [10, 100, 1000, 16000]
    grid = []
    for w in ws:
        for sr in rates:
            B = safe_floor(w / U, sr)
            if B is None:
                continue
            for mn, mx, sl in [(1, 1, 0), (1, 3, 0), (2, 3, 1), (3, 3, 2), (7, 9, 3), (3, 5, 4), (7, 7, 0), (1, 2, 2), (2, 1, 0),
                               (6, 12, 5), (4, 4, 4), (29, 30, 7), (3, 10, 9), (57, 60, 58)]:
                for dm, dx, ds in [(0, 0, 0), (-1, 0, 0), (0, 1, 1), (0, w - 1, w - 1), (1, 0, 0), (0, 0, -1)]:
                    grid.append((w, sr, B, (mn * w + dm, mx * w + dx, max(-1, sl * w + ds), w)))
    rng.shuffle(grid)
    if tier == "quick":
        grid = grid[:700]
    # invalid arguments: always included, each under both spellings of the analysis window
    invalid = []
    for bad in [(0, 10, 0, 10), (-5, 10, 0, 10), (10, 0, 0, 10), (10, -10, 0, 10), (10, 20, -1, 10), (10, 20, 0, 0), (10, 20, 0, -10),
                (10, 20, 0, 5), (0, 0, 0, 0), (50, 100, 100, 10), (100, 50, 0, 10),
                (2000, 50000, 3000, 0), (2000, 50000, 3000, -100), (0, 50000, 3000, 500), (2000, 0, 0, 500)]:      # the last four: durations that would be fine with the DEFAULT window
        for spell in ("long", "short"):
            invalid.append((bad[3], 100, safe_floor(max(bad[3], 1) / U, 100) if bad[3] > 0 else 0, bad, spell))
    for item in invalid + [g + (None,) for g in grid]:
        w, sr, B, units, forced = item
        if B == 0 and units[3] > 0:
            pass
        flags = (rng.random() < .5, rng.random() < .5)
        sw, ch = rng.choice([(1, 1), (2, 1), (2, 2)])
        rej = expected_reject(units, sr, B)
        if rej or B == 0:
            data, n = synth([True, True], max(B, 1), max(B, 1), sw, ch)
            pat = [True, True]
        else:
            mn = -(-units[0] // w)
            mx = units[1] // w
            sl = units[2] // w
            pat = []
            for k in range(1, min(mn, 12) + 2):
                pat += [True] * k + [False] * (sl + 2)
            if mn > 13:
                pat += [True] * (mn - 1) + [False] * (sl + 2) + [True] * mn + [False] * (sl + 2)
            pat += [True] * (mx + 2) + [False] * (sl + 2)
            if sl > 0:
                pat += [True] * 2 + [False] * sl + [True] * 2 + [False] * (sl + 1) + [True] * 2 + [False] * (sl + 2)
            if len(pat) * B > 60000:
                continue
            data, n = synth(pat, B, B, sw, ch)
        sp = {"analysis_window": forced or rng.choice(["long", "short", "short"]), "sampling_rate": rng.choice(["long", "short"])} if (forced or rej or rng.random() < .3) else None
        ev = run_split(M, data, sr, sw, ch, to_floats(units), flags, spelling=sp)
        traces.append({"c": cfg_of(units, sr, max(B, 1), flags), "ev": ev, "info": f"fmt={sw}x{ch} spelling={sp}"})
    return traces


# ------------------------------------------------------------------------------------------------
# C09 variants
# ------------------------------------------------------------------------------------------------
CONTAINERS = ["bytes", "region", "region_conflict", "region_started", "source", "reader", "raw", "raw_lazy", "raw_fmt", "wav", "wav_lazy", "wav_fmt",
              "wav_path", "stdin", "stdin_pipe"]
PAIRS = ["sampling_rate", "sample_width", "channels", "analysis_window", "validator", "audio_format", "max_read"]


def c09_group(rng, tier, M, tmpdir):
    """One audio + parameter set, run through every container and several alias spellings; the reference is
    raw bytes with long names.  Returns traces with `peer` = reference regions."""
    case = gen_case(rng, True, tier)
    sr, sw, ch, B = case["sr"], case["sw"], case["ch"], case["B"]
    # half of the groups use a threshold of exactly 0 dB (falsy value) on audio whose loud windows sit at ~40 dB,
    # i.e. below the default threshold: a spelling that loses the value falls back to 50 dB and finds nothing
    zero_eth = rng.random() < .5
    base_extra = {"eth": 0, "amp": (100, 0)} if zero_eth else {}
    data, n = synth(case["pat"], B, case["tail"], sw, ch, quiet_channels=(1,) if ch > 1 else (), amp=base_extra.get("amp"))
    durs = to_floats(case["units"])
    flags = case["flags"]
    out = []
    ref = run_split(M, data, sr, sw, ch, durs, flags, extra=dict(base_extra))
    peer = regs_of(ref)
    c = cfg_of(case["units"], sr, B, flags)
    out.append({"c": c, "ev": ref, "peer": peer, "usepeer": True, "info": "reference bytes/long names"})
    for cont in CONTAINERS:
        if cont == "reader" and (case["units"][3] * sr) % U != 0:
            continue            # C09 speaks of a reader whose block duration EQUALS the analysis window
        sp = {}
        for pr in PAIRS:
            sp[pr] = rng.choice(["long", "short", "both"])
        valmode = rng.choice(["custom", "custom", "energy"])
        extra = dict(base_extra)
        if valmode == "energy" and ch > 1:
            extra.update({"use_channel": rng.choice([0, "any", None, -ch]), "use_channel_wrong": 1})
            sp["use_channel"] = rng.choice(["long", "short", "both"])
            sp["energy_threshold"] = rng.choice(["long", "short", "both"])
        elif valmode == "energy":
            sp["energy_threshold"] = rng.choice(["long", "short", "both"])
        method = cont in ("region", "region_conflict", "region_started") and rng.random() < .5
        ev = run_split(M, data, sr, sw, ch, durs, flags, container=cont, spelling=sp, tmpdir=tmpdir, validator=valmode,
                       method=method, val_kind=rng.choice(["callable", "DataValidator"]), extra=extra)
        cc = dict(c)
        if cont == "reader":
            cc = cfg_of(case["units"], sr, B, flags, rdr=False)     # block duration equals the analysis window: same counts
        out.append({"c": cc, "ev": ev, "peer": peer, "usepeer": True,
                    "info": f"container={cont} spelling={sp} validator={valmode} method={method} extra={extra}"})
    # an already open, partly read source: split() works on what remains, eager and lazy alike
    if n > 2 * B:
        k0 = rng.choice([B, 2 * B, rng.randint(1, n - 1)])
        refp = run_split(M, data[k0 * sw * ch:], sr, sw, ch, durs, flags, extra=dict(base_extra))
        for cont in ("source_preread", "raw_lazy_preread"):
            ev = run_split(M, data, sr, sw, ch, durs, flags, container=cont, tmpdir=tmpdir, extra=dict(base_extra, preread=k0))
            out.append({"c": c, "ev": ev, "peer": regs_of(refp), "usepeer": True, "info": f"container={cont}: opened and {k0} samples read before split()"})
    # max_read = t  ==  first round(t*rate) samples
    for rep in range(4):
        keep = rng.randint(0, n + B)
        t = None
        if rep >= 2 and sr in (8, 16, 8000, 16000):
            # exact tie: (keep +- 0.5) / rate is exactly representable and Python's round() (half to even) gives the EVEN
            # neighbour keep; the cut is placed inside an active window so that one sample more or less is visible
            act = [k for k, v in enumerate(case["pat"]) if v]
            if act:
                k = rng.choice(act)
                keep = k * B + rng.randint(0, max(0, B - 1))
            keep -= keep % 2
            t = (keep + (0.5 if rep == 2 else rng.choice([0.5, -0.5]))) / sr
            if t < 0 or Fraction(t) * sr != Fraction(2 * keep + (1 if t * sr > keep else -1), 2):
                t = None
        for _ in range(30):
            if t is not None:
                break
            cand = (keep + rng.choice([-0.3, 0, 0.3])) / sr
            cand = float(f"{cand:.9g}")
            if cand >= 0 and safe_round(cand, sr) == keep:
                t = cand
                break
        if t is None:
            continue
        refm = run_split(M, data[: min(keep, n) * sw * ch], sr, sw, ch, durs, flags, extra=dict(base_extra))
        peerm = regs_of(refm)
        exact_reader = (case["units"][3] * sr) % U == 0
        for cont in rng.sample([x for x in CONTAINERS if not x.startswith("region") and (x != "reader" or exact_reader)], 4):
            sp = {"max_read": rng.choice(["long", "short", "both"])}
            ev = run_split(M, data, sr, sw, ch, durs, flags, container=cont, spelling=sp, tmpdir=tmpdir, max_read=t, extra=dict(base_extra))
            out.append({"c": c, "ev": ev, "peer": peerm, "usepeer": True, "info": f"container={cont} max_read={t} (= first {keep} samples) spelling={sp}"})
    return out


# ------------------------------------------------------------------------------------------------
# leg M for the split family: Split.tla (tokenizer + framing + region construction)
# ------------------------------------------------------------------------------------------------
def leg_m(V, wd, tier, invs):
    consts = dict(MaxFrames=6 if tier == "quick" else 8, MinSet="{1,2,3}", MaxSet="{1,2,3}", SilSet="{0,1,2}", IMinSet="{0}", ISilSet="{0}")
    cfg = "CONSTANTS\n" + "".join(f"  {k} = {v}\n" for k, v in consts.items()) + "  FixD1 = TRUE\n  FixD2 = TRUE\n  BSet = {1, 2, 3}\n"
    cfg += "SPECIFICATION SSpec\n" + "".join(f"INVARIANT {i}\n" for i in invs) + "CHECK_DEADLOCK TRUE\n"
    res = tlc.run("Split", cfg, wd, name="mc_split", timeout=3000, mem="12g")
    tlc.require_ok(res, "leg M Split")
    V.add_model("M:Split", res)
    if res["violated"] or not res["ok"]:
        raise MachineryError(f"leg M Split: {res['violated']} / {res['error']}\n" + tlc.counterexample(res, 60))
    V.cov["exhaustive"] = True


def leg_m_durations(V, wd, tier):
    cfg = "CONSTANTS MaxW = %d MaxK = %d\nSPECIFICATION Spec\nINVARIANT DurOK\nCHECK_DEADLOCK FALSE\n" % ((12, 40) if tier == "quick" else (25, 80))
    res = tlc.run("DurationsMC", cfg, wd, name="mc_dur", timeout=3000, mem="8g")
    tlc.require_ok(res, "leg M Durations")
    V.add_model("M:Durations", res)
    if res["violated"] or not res["ok"]:
        raise MachineryError(f"leg M Durations: {res['violated']} / {res['error']}\n" + tlc.counterexample(res, 60))


def leg_unbounded_durations(V, wd):
    """The window-count formulas for ALL positive durations and windows (Apalache, symbolic integers); NotStrict is a false formula that
    must be refuted (vacuity control)."""
    detail, done = tlc.apalache("DurationsInt", [("Lemma1", True), ("Lemma2", True), ("NotStrict", False)], wd, timeout=240)
    V.leg("unbounded", tool="apalache-mc 0.58", module="DurationsInt", obligations=3, discharged=done, detail=detail,
          checker_cmd="apalache-mc check --inv=Lemma1|Lemma2|NotStrict --length=0 DurationsInt.tla")
    V.cov["obligations"] = 3
    V.cov["discharged"] = done


FLAG = {"C05": 4, "C06": 5, "C08": 6, "C09": 7}


def report(V, prop, traces, rows, leg):
    for tr, row in zip(traces, rows):
        parse_bad = row[2] != row[3]
        bad = parse_bad or bool(row[FLAG[prop]])
        if bad:
            V.violation({"c": tr["c"], "windows": [e["v"] for e in tr["ev"] if e["e"] == "W"], "info": tr.get("info", "")},
                        describe(tr) + f" violates {prop}" + (" (peer regions: %s)" % tr["peer"][:8] if prop == "C09" else ""),
                        {"leg": leg, "trace": tr, "row": row})


def check(prop, tier, replay=None):
    M = mods()
    V = Verdict(prop, tier)
    wd = workdir("split_" + prop)
    tmpdir = os.path.join(wd, "audio")
    os.makedirs(tmpdir, exist_ok=True)
    rng = random.Random(SEED * 1000 + int(prop[1:]))
    V.assumptions += [
        "TLC/SANY/CommunityModules, CPython, wave module; region bytes are compared with the input slice by the projection",
        "durations live on a 0.1 ms grid (exact quotients); analysis windows whose float product with the rate is ambiguous (O1) are not generated",
        "per-window validity comes from the logged validator, so C05/C06/C09 do not depend on C07",
    ]
    traces = []
    t0 = time.time()
    if prop == "C05":
        leg_m(V, wd, tier, ["TypeOK", "C05M"])
        n = 500 if tier == "quick" else 40000
        for i in range(n):
            case = gen_case(rng, True, tier)
            data, _ = synth(case["pat"], case["B"], case["tail"], case["sw"], case["ch"])
            cont = rng.choice(["bytes", "bytes", "region", "source", "region_conflict", "region_started"])
            ev = run_split(M, data, case["sr"], case["sw"], case["ch"], to_floats(case["units"]), case["flags"], container=cont,
                           method=(cont.startswith("region") and rng.random() < .5), val_kind=rng.choice(["callable", "DataValidator"]),
                           validator=rng.choice(["custom", "custom", "energy"]))
            traces.append({"c": cfg_of(case["units"], case["sr"], case["B"], case["flags"]), "ev": ev,
                           "info": f"container={cont} fmt={case['sw']}x{case['ch']} tail={case['tail']}"})
            if i % 4 == 0:
                # two-step history: a region that came out of split() (start > 0) is split again -- times are relative to ITS beginning
                try:
                    first = list(core_split_regions(M, data, case))
                except Exception:
                    first = []
                for g in first[1:3]:
                    sub = bytes(g)
                    meth = rng.random() < .5
                    ev2 = run_split(M, sub, case["sr"], case["sw"], case["ch"], to_floats(case["units"]), case["flags"], container="region",
                                    method=meth, region_obj=g)
                    traces.append({"c": cfg_of(case["units"], case["sr"], case["B"], case["flags"]), "ev": ev2,
                                   "info": f"second split of a detection starting at {g.start} s (method={meth})"})
    elif prop == "C06":
        leg_m_durations(V, wd, tier)
        leg_unbounded_durations(V, wd)
        traces += c06_cases(rng, tier, M)
        n = 300 if tier == "quick" else 15000
        for i in range(n):
            case = gen_case(rng, False, tier)
            data, _ = synth(case["pat"], case["B"], case["tail"], case["sw"], case["ch"])
            rdr = rng.random() < .25 and max(case["units"][:3]) * case["sr"] < 2 ** 31 - 1
            hop = None
            if rdr and case["B"] >= 2 and rng.random() < .5:
                hop = (case["B"] // 2 + 0.5) / case["sr"]       # overlapping reader: w is still the reader's BLOCK duration
            xtra = {"hop_dur": hop} if hop else {}
            if rdr and rng.random() < .5:
                w_ = to_floats(case["units"])["analysis_window"]
                xtra["reader_aw"] = (rng.choice(["analysis_window", "aw"]), rng.choice([w_ * 2, w_ / 2, 0.05, w_ * 3, 0.01]))
            ev = run_split(M, data, case["sr"], case["sw"], case["ch"], to_floats(case["units"]), case["flags"],
                           container="reader" if rdr else "bytes", extra=xtra or None)
            traces.append({"c": cfg_of(case["units"], case["sr"], case["B"], case["flags"], rdr=rdr), "ev": ev,
                           "info": f"{'AudioReader input hop=%s also given %s' % (hop, xtra.get('reader_aw')) if rdr else 'bytes'} fmt={case['sw']}x{case['ch']}"})
    elif prop == "C09":
        leg_m(V, wd, tier, ["TypeOK", "C05M"])
        for i in range(25 if tier == "quick" else 1500):
            traces += c09_group(rng, tier, M, tmpdir)
    rows, st = judge_split(traces, wd)
    V.cov["states"] += st
    V.cov["traces_validated_against_impl"] += len(traces)
    V.count(len(traces), (canon([t_["c"], [e.get("v") for e in t_["ev"] if e["e"] == "W"], t_.get("info")]) for t_ in traces if regs_of(t_["ev"])))
    report(V, prop, traces, rows, "T")
    V.leg("T", traces=len(traces), events=sum(len(t_["ev"]) for t_ in traces), wall_s=round(time.time() - t0, 2))
    if traces:
        big = max(traces, key=lambda t_: len(regs_of(t_["ev"])))
        V.sample({"leg": "T", "case": describe(big)[:600]})
    shutil.rmtree(tmpdir, ignore_errors=True)
    return V.finish(
        rule="leg M: TLC on Split / DurationsMC; leg T: seeded real split() runs (formats 1/2/4 bytes x 1-4 channels, rates 8..44100, partial "
             "last windows, containers, alias spellings) recorded at the API boundary and judged by TLC on SplitTrace. distinct = canonical "
             "(configuration, window validity pattern, variant); non-trivial = at least one region")


def lazy_traces(rng, tier, M, count):
    """split() part of C08: logging AudioSource as input; regions must be yielded before more is pulled."""
    traces = []
    for i in range(count):
        case = gen_case(rng, True, tier)
        data, _ = synth(case["pat"], case["B"], case["tail"], case["sw"], case["ch"])
        limit = rng.choice([None, None, 1, 2])
        ev = run_split(M, data, case["sr"], case["sw"], case["ch"], to_floats(case["units"]), case["flags"], container="lazysource", limit=limit)
        if limit is not None and ev and ev[-1]["e"] == "END" and len(regs_of(ev)) >= limit and not any(e["e"] == "EOS" for e in ev):
            ev = ev[:-1] + [{"e": "STOP"}]
        traces.append({"c": cfg_of(case["units"], case["sr"], case["B"], case["flags"], lazy=True), "ev": ev, "abandoned": limit,
                       "info": f"logging AudioSource input, consumer stops after {limit} regions"})
    return traces
