"""X02 (beyond the listed properties): the files of a stream-saving / event-joining worker -- format guessing, temporary
wav name, raw export, converter fall-back chain (fake ffmpeg / avconv / sox), warning, removal of the temporary file --
against Export.tla.  Leg M: TLC on ExportMC (all output names x formats x converter environments x pre-existing files);
leg R: every exported behaviour replayed on the real workers through their public API; leg T: seeded histories of the real
workers judged by TLC on ExportTrace.  Not registered in MANIFEST.json; run with ./check X02 [quick|thorough]."""
import gc
import os
import random
import shutil
import sys
import time
import types
import warnings

from . import tlc
from .common import EVIDENCE, OUT, SEED, MachineryError, Verdict, canon, import_auditok, workdir
from .judge import judge

BLK = 8          # bytes per block: 4 samples of 2 bytes, mono
SR, SW, CH = 100, 2, 1
TOOLS = ("ffmpeg", "avconv", "sox")


def block(i):
    return bytes([i]) * BLK


def ids_of(raw):
    out = []
    for o in range(0, len(raw), BLK):
        c = raw[o:o + BLK]
        out.append(c[0] if len(c) == BLK and c == bytes([c[0]]) * BLK else -1)
    return out


def names(tmpdir, ext, K):
    out = os.path.join(tmpdir, "o" + ("." + ext if ext else ""))
    return [out, out + ".wav"] + [out + "({}).wav".format(i) for i in range(1, K)]


def project(path, k):
    """content record of one name: [kind, tool, ids]"""
    import wave
    if not os.path.exists(path):
        return ["absent", "", []]
    raw = open(path, "rb").read()
    if raw == b"PRE%d" % k:
        return ["pre", "", [100 + k]]
    if raw.startswith(b"CONV:"):
        _, tool, src = raw.split(b":", 2)
        p2 = path + ".__src"
        open(p2, "wb").write(src)
        r = project(p2, -1)
        os.remove(p2)
        return ["conv", tool.decode(), r[2] if r[0] == "wav" else [-2]]
    try:
        with wave.open(path, "rb") as w:
            if (w.getframerate(), w.getsampwidth(), w.getnchannels()) != (SR, SW, CH):
                return ["wav", "badparams", []]
            return ["wav", "", ids_of(w.readframes(-1))]
    except Exception:  # noqa
        pass
    return ["raw", "", ids_of(raw)]


class FakeTools:
    """stands in for the subprocess module inside auditok.workers: ffmpeg / avconv / sox succeed, fail or are missing"""
    PIPE = -1
    DEVNULL = -3

    def __init__(self, env):
        self.env = env
        self.calls = []

    def _do(self, command, kw):
        for v in kw.values():
            if hasattr(v, "close"):
                try:
                    v.close()
                except Exception:  # noqa
                    pass
        tool = os.path.basename(str(command[0]))
        self.calls.append(tool)
        outcome = self.env.get(tool, "missing")
        if outcome == "missing":
            raise FileNotFoundError(tool)
        if outcome == "fail":
            return 1
        args = [str(a) for a in command]
        dst = args[-1]
        src = args[args.index("-i") + 1] if "-i" in args else args[-2]
        with open(src, "rb") as f:
            data = f.read()
        with open(dst, "wb") as f:
            f.write(b"CONV:" + tool.encode() + b":" + data)
        return 0

    def Popen(self, command, **kw):
        rc = self._do(command, kw)

        class P:
            returncode = rc

            def communicate(s_, *a, **k):
                return b"", (b"" if rc == 0 else b"conversion failed")

            def wait(s_, *a, **k):
                return rc

            def __enter__(s_):
                return s_

            def __exit__(s_, *a):
                return False
        return P()

    def run(self, command, **kw):
        rc = self._do(command, kw)
        return types.SimpleNamespace(returncode=rc, stdout=b"", stderr=b"" if rc == 0 else b"conversion failed")

    def call(self, command, **kw):
        return self._do(command, kw)


def run_history(W, util, aio, core, tmproot, tag, ext, fpar, env, pre, actions, kind, K, finish_by):
    """Drives a real worker through `actions` (list of 'write' / 'finish' / 'export' / 'collect' after the constructor) and returns the
    events [{a, fs, calls, res}] it produced, the constructor first."""
    d = os.path.join(tmproot, f"h{tag}")
    shutil.rmtree(d, ignore_errors=True)
    os.makedirs(d)
    nm = names(d, ext, K)
    for k, p in enumerate(pre):
        if p:
            open(nm[k], "wb").write(b"PRE%d" % k)
    fake = FakeTools(env)
    real = W.subprocess
    W.subprocess = fake
    ev = []
    state = {"res": "none"}

    def snap(a):
        ev.append({"a": a, "fs": [project(p, k) for k, p in enumerate(nm)], "calls": list(fake.calls), "res": state["res"]})
    nblocks = sum(1 for a in actions if a == "write")
    try:
        fmt = None if fpar == "none" else fpar
        if kind == "stream":
            data = b"".join(block(i + 1) for i in range(nblocks))
            reader = util.AudioReader(aio.BufferAudioSource(data, SR, SW, CH), block_dur=BLK / (SW * CH) / SR)
            w = W.StreamSaverWorker(reader, nm[0], export_format=fmt, cache_size_sec=random.Random(tag).choice([0, 0.05, 0.5]), timeout=0.002)
            snap("open")
            w.start()
            w.open()
        else:
            w = W.AudioEventsJoinerWorker(0, nm[0], fmt, SR, SW, CH, timeout=0.002)
            snap("open")
            w.start()
        n = 0
        for a in actions:
            if a == "write":
                n += 1
                if kind == "stream":
                    got = w.read()
                    if got != block(n):
                        raise MachineryError("the saver handed on something else than the block read")
                else:
                    w.send((n, core.AudioRegion(block(n), SR, SW, CH)))
                snap("write")
            elif a == "finish":
                if kind == "stream" and finish_by == "eos":
                    while w.read() is not None:
                        pass
                    w.join()
                elif kind == "stream":
                    w.close()
                else:
                    w.stop()
                snap("finish")
            elif a == "export":
                with warnings.catch_warnings():
                    warnings.simplefilter("ignore")
                    try:
                        r = w.export_audio()
                        state["res"] = "ok" if str(r) == nm[0] else "wrongname"
                    except Warning:
                        state["res"] = "warning"
                snap("export")
            elif a == "collect":
                if kind == "stream":
                    reader = None
                w = None
                gc.collect()
                snap("collect")
        if w is not None:
            if w.is_alive():
                (w.close if kind == "stream" else w.stop)()
            w = None
            gc.collect()
    finally:
        W.subprocess = real
        shutil.rmtree(d, ignore_errors=True)
    return ev


def _batch(args):
    jobs, tmproot = args
    import_auditok()
    from auditok import workers as W, util, io as aio, core
    gc.freeze()          # the parent's heap (thousands of behaviours) is not this process's garbage
    return [run_history(W, util, aio, core, tmproot, *j) for j in jobs]


def run_many(jobs, tmproot):
    from concurrent.futures import ProcessPoolExecutor
    step = max(1, min(200, len(jobs) // 32 or 1))
    parts = [(jobs[i:i + step], tmproot) for i in range(0, len(jobs), step)]
    out = []
    with ProcessPoolExecutor(max_workers=16) as ex:
        for r in ex.map(_batch, parts):
            out += r
    return out


def check(prop, tier, replay=None):
    import_auditok()
    V = Verdict("X02", tier)
    wd = workdir("export")
    tmproot = os.path.join(wd, "fs")
    os.makedirs(tmproot, exist_ok=True)
    rng = random.Random(SEED + 202)
    K, MB = (2, 1) if tier == "quick" else (3, 2)
    cfg = (f"CONSTANTS MaxBlocks = {MB} K = {K}\nSPECIFICATION MSpec\nINVARIANT TypeOK\nINVARIANT Exact\nINVARIANT KeepsAudio\nINVARIANT Tidy\n"
           "INVARIANT WarnIff\nPROPERTY NoClobberM\nPROPERTY IdempotentM\nCONSTRAINT Bound\nCONSTRAINT Dump\nCHECK_DEADLOCK FALSE\n")
    res = tlc.run("ExportMC", cfg, wd, name="mc", timeout=3000, mem="8g")
    tlc.require_ok(res, "leg M")
    V.add_model("M", res)
    if res["violated"] or not res["ok"]:
        raise MachineryError(f"leg M: {res['violated']} / {res['error']}\n" + tlc.counterexample(res, 40))
    V.cov["exhaustive"] = True
    hs = {}
    for j in res["json"]:
        hs.setdefault(canon(j), j)
    hs = list(hs.values())
    # ---- leg R: every behaviour on the real workers
    t0 = time.time()
    bad = 0
    jobs = []
    for i, h in enumerate(hs):
        env = {t: h["env"][t] for t in TOOLS}
        actions = [e["a"] for e in h["hist"][1:]]
        jobs.append((i, h["ext"], h["fpar"], env, h["pre"], actions, ("stream", "joiner")[i % 2], K, ("eos", "close")[(i // 2) % 2]))
    evs = run_many(jobs, tmproot)
    for i, (h, ev) in enumerate(zip(hs, evs)):
        env, actions, kind = jobs[i][3], jobs[i][5], jobs[i][6]
        for k, (e, s) in enumerate(zip(ev, h["hist"])):
            running = s["a"] in ("open", "write")
            exp_fs = [list(x) for x in s["fs"]]
            got_fs = [list(x) for x in e["fs"]]
            if running:
                t_ = s["tmp"]
                same = all((got_fs[n_][0] != "absent") if n_ == t_ else got_fs[n_] == exp_fs[n_] for n_ in range(K + 1))
            else:
                same = got_fs == exp_fs
            if not (same and e["calls"] == list(s["calls"]) and e["res"] == s["last"] and e["a"] == s["a"]):
                bad += 1
                V.violation({"ext": h["ext"], "fpar": h["fpar"], "env": env, "pre": h["pre"], "actions": actions[:k], "kind": kind},
                            f"{kind} worker, output 'o{'.' + h['ext'] if h['ext'] else ''}', export_format={h['fpar']}, tools={env}, pre-existing={h['pre']}: after "
                            f"{['constructor'] + actions[:k]} files={got_fs} converters started={e['calls']} result={e['res']}; Export.tla: files={exp_fs} "
                            f"converters={list(s['calls'])} result={s['last']}", {"leg": "R", "behaviour": h, "step": k, "observed": e})
                break
    V.cov["traces_validated_against_impl"] += len(hs)
    V.count(len(hs), (canon(h) for h in hs if any(e["a"] == "export" for e in h["hist"])))
    V.leg("R", behaviours=len(hs), mismatches=bad, wall_s=round(time.time() - t0, 2))
    # ---- leg T: seeded histories of the real workers, judged by TLC
    t0 = time.time()
    KT = 4
    traces = []
    jobs = []
    exts = ["", "wav", "raw", "ogg", "WAV", "wave", "Raw"]
    fpars = ["none", "wav", "wave", "raw", "ogg", "RAW", "WAVE", "mp3"]
    for i in range(300 if tier == "quick" else 6000):
        ext, fpar = rng.choice(exts), rng.choice(fpars + ["none"] * 4)
        env = {t: rng.choice(["ok", "fail", "missing"]) for t in TOOLS}
        pre = [rng.random() < .4 for _ in range(KT)]
        actions = ["write"] * rng.choice([0, 1, 2, 5]) + ["finish"] + ["export"] * rng.choice([0, 1, 1, 2, 3]) + (["collect"] if rng.random() < .8 else [])
        kind = rng.choice(["stream", "joiner"])
        jobs.append((100000 + i, ext, fpar, env, pre, actions, kind, KT, rng.choice(["eos", "close"])))
    for j, ev in zip(jobs, run_many(jobs, tmproot)):
        traces.append({"ext": j[1], "fpar": j[2], "env": j[3], "pre": j[4], "ev": ev, "kind": j[6]})
    tcfg = f"CONSTANTS MaxBlocks = 100 K = {KT}\nSPECIFICATION TSpec\nCONSTRAINT Mon\nPOSTCONDITION Post\nCHECK_DEADLOCK FALSE\n"
    rows, st = judge("ExportTrace", tcfg, traces, wd, "et", strip=lambda x: {k: x[k] for k in ("ext", "fpar", "env", "pre", "ev")}, weight=lambda x: len(x["ev"]))
    V.cov["states"] += st
    for tr, row in zip(traces, rows):
        if row[2] == row[3]:
            continue
        i = abs(row[2]) - 1 if row[2] < 0 else row[2] - 1
        i = min(i, len(tr["ev"]) - 1)
        e = tr["ev"][i]
        why = "a property of Export fails in the state after it" if row[2] < 0 else "not a step of Export"
        V.violation({"ext": tr["ext"], "fpar": tr["fpar"], "env": tr["env"], "pre": tr["pre"], "actions": [x["a"] for x in tr["ev"][:i + 1]], "kind": tr["kind"]},
                    f"{tr['kind']} worker, output 'o{'.' + tr['ext'] if tr['ext'] else ''}', export_format={tr['fpar']}, tools={tr['env']}, pre-existing={tr['pre']}: event #{i} "
                    f"{e['a']} left files={e['fs']} converters started={e['calls']} result={e['res']}: {why}", {"leg": "T", "trace": tr, "event": i})
    V.cov["traces_validated_against_impl"] += len(traces)
    V.count(len(traces), (canon([t_["ext"], t_["fpar"], t_["env"], t_["pre"], [e["a"] for e in t_["ev"]]]) for t_ in traces))
    V.leg("T", traces=len(traces), events=sum(len(t_["ev"]) for t_ in traces), wall_s=round(time.time() - t0, 2))
    V.sample({"leg": "T", "trace": traces[0]})
    shutil.rmtree(tmproot, ignore_errors=True)
    rc = V.finish(rule="leg M: every (extension, export format, converter environment, pre-existing files) x history of the bound; leg R: each exported "
                       "behaviour on the real StreamSaverWorker / AudioEventsJoinerWorker with fake converters; leg T: seeded histories judged by TLC on ExportTrace")
    try:
        shutil.move(os.path.join(EVIDENCE, "X02.json"), os.path.join(OUT, "X02.json"))
    except OSError:
        pass
    return rc
