"""Audio as sequences of sample ids: every (multi-channel) sample gets a unique byte pattern so that
bytes <-> ids is a bijection the projections can check exactly."""
import io
import os
import sys
import wave


def sample_bytes(i, sw, ch):
    """bytes of sample id i (i >= 1): id little-endian in the first min(bps,3) bytes, then (i + j) & 0xFF."""
    bps = sw * ch
    k = min(bps, 3)
    b = bytearray((i % (1 << (8 * k))).to_bytes(k, "little"))
    for j in range(k, bps):
        b.append((i * 7 + j * 13) & 0xFF)
    return bytes(b)


def make_audio(n, sw, ch, first=1):
    return b"".join(sample_bytes(i, sw, ch) for i in range(first, first + n))


def max_ids(sw, ch):
    return (1 << (8 * min(sw * ch, 3))) - 1


def decode(block, sw, ch):
    """Projection of a returned block: list of ids, or the markers 'none' / 'empty' / 'ragged'.
    Unknown sample patterns become id -1."""
    if block is None:
        return "none", []
    if not isinstance(block, (bytes, bytearray, memoryview)):
        return "type:" + type(block).__name__, []
    block = bytes(block)
    bps = sw * ch
    if len(block) == 0:
        return "empty", []
    if len(block) % bps:
        return "ragged", []
    ids = []
    k = min(bps, 3)
    for o in range(0, len(block), bps):
        s = block[o:o + bps]
        i = int.from_bytes(s[:k], "little")
        ids.append(i if sample_bytes(i, sw, ch) == s else -1)
    return "blk", ids


class ChunkedRaw(io.RawIOBase):
    """A raw stream that behaves like a pipe fed by a bursty writer: each raw read returns at most the next burst
    (never more than asked), b"" only at the end.  Deterministic; no threads."""

    def __init__(self, data, bursts):
        self.data, self.pos = data, 0
        self.bursts = list(bursts) or [len(data) or 1]
        self.k = 0

    def readable(self):
        return True

    def readinto(self, b):
        if self.pos >= len(self.data):
            return 0
        n = min(len(b), self.bursts[self.k % len(self.bursts)], len(self.data) - self.pos)
        self.k += 1
        b[:n] = self.data[self.pos:self.pos + n]
        self.pos += n
        return n


class FakeStdin:
    """sys.stdin stand-in.  bursts=None: an in-memory buffer (like a redirected regular file); otherwise a buffered reader
    over a pipe-like raw stream delivering the given burst sizes (like `producer | auditok -`)."""

    def __init__(self, data, bursts=None):
        if bursts is None:
            self.buffer = io.BytesIO(data)
        else:
            self.buffer = io.BufferedReader(ChunkedRaw(data, bursts), buffer_size=max(16, min(4096, (len(data) // 3) or 16)))


def write_noncanonical_wav(path, data, sr, sw, ch):
    """A perfectly valid RIFF/WAVE file that is not laid out the way Python's wave module writes it: an 18-byte fmt chunk, a LIST/INFO
    chunk before the data (ffmpeg writes one), an odd-sized chunk with its pad byte, and metadata after the data (audio editors do that)."""
    import struct

    def chunk(cid, payload):
        return cid + struct.pack("<I", len(payload)) + payload + (b"\0" if len(payload) % 2 else b"")
    fmt = struct.pack("<HHIIHHH", 1, ch, sr, sr * sw * ch, sw * ch, 8 * sw, 0)
    info = b"INFO" + chunk(b"ISFT", b"verif harness\0")
    body = b"WAVE" + chunk(b"fmt ", fmt) + chunk(b"LIST", info) + chunk(b"junk", b"\x01\x02\x03") + chunk(b"data", data) + chunk(b"LIST", b"INFO" + chunk(b"ICMT", b"trailing metadata"))
    with open(path, "wb") as f:
        f.write(b"RIFF" + struct.pack("<I", len(body)) + body)


KINDS = ["bytes", "source", "raw", "raw_lazy", "wav", "wav_lazy", "stdin", "stdin_pipe"]


def make_input(kind, data, sr, sw, ch, tmpdir, tag="a"):
    """Returns (input, kwargs, cleanup) such that AudioReader(input, **kwargs) / get_audio_source(input, **kwargs)
    reads `data`.  For 'stdin' sys.stdin is replaced until cleanup() is called."""
    from auditok import io as aio
    params = {"sampling_rate": sr, "sample_width": sw, "channels": ch}
    if kind == "bytes":
        return data, params, lambda: None
    if kind == "source":
        return aio.BufferAudioSource(data, sr, sw, ch), {}, lambda: None
    if kind in ("raw", "raw_lazy"):
        path = os.path.join(tmpdir, f"{tag}.raw")
        with open(path, "wb") as f:
            f.write(data)
        kw = dict(params)
        if kind == "raw_lazy":
            kw["large_file"] = True
        return path, kw, lambda: None
    if kind in ("wav", "wav_lazy"):
        path = os.path.join(tmpdir, f"{tag}.wav")
        if (len(data) + sr + sw + ch) % 2:
            write_noncanonical_wav(path, data, sr, sw, ch)
        else:
            with wave.open(path, "wb") as w:
                w.setframerate(sr)
                w.setsampwidth(sw)
                w.setnchannels(ch)
                w.writeframes(data)
        kw = {}
        if kind == "wav_lazy":
            kw["large_file"] = True
        return path, kw, lambda: None
    if kind in ("stdin", "stdin_pipe"):
        old = sys.stdin
        bps = sw * ch
        # bursts that are not multiples of a sample / a block: 1 sample + 1 byte, 3 bytes, 2 samples, ...
        sys.stdin = FakeStdin(data, None if kind == "stdin" else [bps + 1, 3, 2 * bps, 1, 5 * bps + 2])

        def restore():
            sys.stdin = old
        return "-", params, restore
    raise ValueError(kind)
