"""C15: the command line reports exactly what the API detects.

leg M : TLC on CliMC enumerates option vectors (every subset of at most MaxPresent options, every palette value)
        and exports what module Cli prescribes for each: the API keyword arguments (documented defaults for
        absent options), exit status, whether lines are printed, which files are written; it also checks the
        hour/minute/second/millisecond field decomposition around every carry.
leg R : every exported vector becomes an argv executed with auditok.cmdline.main in worker processes (wav file,
        raw file and standard input rotate; --printf / --time-format rotate); the API split() is called with the
        keyword arguments the specification prescribes; TLC (CliTrace) judges exit status, number of lines, ids,
        every printed time against the exact instant of the API detection, field ranges and recomposition, and
        the projected files.
"""
import json
import math
import os
import random
import re
import shutil
import subprocess
import sys
import time
import wave
from fractions import Fraction

from . import tlc
from .common import NCPU, PY, REPO, SEED, VERIF, MachineryError, Verdict, canon, import_auditok, workdir
from .judge import judge

U = 10000
LEVEL = {70: 3162, 55: 562, 45: 178}
# bursts (start s, end s, level dB) on a 50 ms grid; channel 1 carries a shifted copy
BURSTS = [(0.11, 0.26, 70), (0.41, 0.47, 55), (0.72, 1.61, 70), (1.76, 1.87, 45), (2.13, 2.29, 70), (2.57, 2.60, 70), (2.93, 3.34, 55),
          (3.61, 3.68, 70), (3.97, 4.19, 70), (4.43, 4.57, 45), (4.83, 5.39, 70)]
TOTAL = 5.6
TFS = [("S", "%S"), ("I", "%I"), ("F", "%h:%m:%s.%i")]
PRINTFS = [None, "{id}|{start}|{end}|{duration}", "{id}\\t{start}\\t{end}", "{id}\u2192{start}\u2192{end}"]       # the last: a non-ASCII template


_SYNTH = {}


def synth(sr, sw, ch):
    if (sr, sw, ch) not in _SYNTH:
        _SYNTH[(sr, sw, ch)] = _synth(sr, sw, ch)
    return _SYNTH[(sr, sw, ch)]


def _synth(sr, sw, ch):
    n = int(TOTAL * sr)
    out = bytearray()
    for i in range(n):
        t = i / sr
        for c in range(ch):
            tt = t - 0.30 * c
            amp = 0
            for a, b, lv in BURSTS:
                if a <= tt < b:
                    amp = LEVEL[lv]
            v = amp if (i % 2 == 0) else -amp
            if amp == 0:
                v = (i + c) % 2
            out += int(v).to_bytes(sw, "little", signed=True)
    return bytes(out)


def to_api_kwargs(kw):
    uc = kw["use_channel"]
    if uc == "none":
        uc = None
    else:
        try:
            uc = int(uc)
        except ValueError:
            pass
    d = dict(min_dur=kw["min_dur"] / U, max_dur=kw["max_dur"] / U, max_silence=kw["max_silence"] / U,
             drop_trailing_silence=kw["drop_trailing_silence"], strict_min_dur=kw["strict_min_dur"],
             analysis_window=kw["analysis_window"] / U, energy_threshold=kw["energy_threshold"], use_channel=uc,
             sampling_rate=kw["sampling_rate"], sample_width=kw["sample_width"], channels=kw["channels"], large_file=kw["large_file"])
    if kw.get("audio_format", "none") != "none":
        d["audio_format"] = kw["audio_format"]
    if kw["max_read"] >= 0:
        d["max_read"] = kw["max_read"] / U
    return d


OPT2FLAG = {"f": "-f", "n": "-n", "m": "-m", "s": "-s", "a": "-a", "e": "-e", "d": "-d", "R": "-R", "u": "-u", "M": "-M", "r": "-r", "c": "-c", "w": "-w",
            "L": "-L", "q": "-q", "O": "-O", "o": "-o", "j": "-j", "C": "-C", "E": "-E", "G": "--debug-file", "D": "-D", "T": "-T", "P": "--save-image",
            "I": "-I", "F": "-F"}
LONGFLAG = {"f": "--input-format", "n": "--min-duration", "m": "--max-duration", "s": "--max-silence", "a": "--analysis-window", "e": "--energy-threshold",
            "d": "--drop-trailing-silence", "R": "--strict-min-duration", "u": "--use-channel", "M": "--max-read", "r": "--rate",
            "c": "--channels", "w": "--width", "L": "--large-file", "q": "--quiet", "O": "--save-stream", "o": "--save-detections-as",
            "j": "--join-detections", "C": "--command", "E": "--echo", "G": "--debug-file", "D": "--debug", "T": "--output-format", "P": "--save-image",
            "I": "--input-device-index", "F": "--audio-frame-per-buffer"}


def fmt_seconds(units):
    return repr(units / U)


def build_job(idx, vec, tmproot, rng):
    kw = vec["kw"]
    d = os.path.join(tmproot, f"j{idx}")
    os.makedirs(d, exist_ok=True)
    kind = ["wav", "raw", "stdin"][idx % 3]
    if kw["large_file"] and kind == "stdin":
        kind = "raw"
    fmt_opt = kw.get("audio_format", "none")
    if fmt_opt != "none":
        kind = fmt_opt          # -f names the format of a file whose extension says nothing
    elif not kw["large_file"] and (set(vec["present"]) & {"I", "F"} or (set(vec["present"]) & {"C", "E", "G", "D", "T", "P"} and idx % 4 == 1)):
        kind = "mic"            # no input argument at all: the default input, a (fake) PyAudio device holding the same recording
    sr, sw, ch = kw["sampling_rate"], kw["sample_width"], kw["channels"]
    if kind == "wav":
        # a wav file carries its own parameters: -r/-c/-w (and their defaults) must not matter
        # 22050 Hz: -j 0.25 is then exactly 5512.5 samples (round-half-even: 5512)
        fsr, fsw, fch = [(8000, 2, 1), (16000, 2, 2), (22050, 2, 1), (22050, 2, 2)][(idx // 3) % 4]
    else:
        fsr, fsw, fch = sr, sw, ch
    data = synth(fsr, fsw, fch)
    if kind == "wav":
        path = os.path.join(d, "in.wav" if fmt_opt == "none" else "in.bin")
        with wave.open(path, "wb") as w:
            w.setframerate(fsr)
            w.setsampwidth(fsw)
            w.setnchannels(fch)
            w.writeframes(data)
    else:
        path = os.path.join(d, "in.raw" if fmt_opt == "none" else "in.bin")
        with open(path, "wb") as f:
            f.write(data)
    argv = []
    long_names = (idx // 3) % 2 == 1
    for k in sorted(vec["present"]):
        v = vec["opts"][k]
        flag = (LONGFLAG if long_names else OPT2FLAG)[k]
        if k in ("d", "R", "L", "q", "E", "D"):
            argv.append(flag)
        elif k == "C":
            argv += [flag, "consume {file}"]
        elif k == "G":
            argv += [flag, os.path.join(d, "debug.log")]
        elif k == "P":
            argv += [flag, os.path.join(d, "image.png")]
        elif k in ("n", "m", "s", "a", "M", "j"):
            argv += [flag, fmt_seconds(v)]
        elif k == "O":
            argv += [flag, os.path.join(d, "stream_out.wav")]
        elif k == "o":
            argv += [flag, os.path.join(d, "det_{id}_{start:.3f}_{end:.3f}.wav")]
        else:
            argv += [flag, str(v)]
    tfk, tf = TFS[(idx // 2) % len(TFS)]
    pf = PRINTFS[(idx // 5) % len(PRINTFS)]
    if tf != "%S" or idx % 4 == 0:
        argv += ["--time-format", tf]
    if pf is not None:
        argv += ["--printf", pf]
    job = {"id": idx, "cwd": d, "argv": argv + (["-"] if kind == "stdin" else [] if kind == "mic" else [path]), "stdin": path if kind == "stdin" else None,
           "mic": path if kind == "mic" else None,
           "fx": bool(set(vec["present"]) & {"C", "E", "G", "D", "T", "P", "I", "F"}) or kind == "mic"}
    meta = {"kind": kind, "path": path, "fmt": [fsr, fsw, fch], "tf": tfk, "printf": pf, "dir": d, "data_len": len(data)}
    return job, meta, data


def parse_time(tfk, s):
    """-> (W whole ms, fields or None, well-formed?)"""
    if tfk == "S":
        m = re.fullmatch(r"(\d+)\.(\d{3})", s)
        return (int(m.group(1)) * 1000 + int(m.group(2)), [0, 0, 0, 0], True) if m else (0, [0, 0, 0, 0], False)
    if tfk == "I":
        m = re.fullmatch(r"\d+", s)
        return (int(s), [0, 0, 0, 0], True) if m else (0, [0, 0, 0, 0], False)
    m = re.fullmatch(r"(\d{2,}):(\d{2}):(\d{2})\.(\d{3})", s)
    if not m:
        return 0, [0, 0, 0, 0], False
    h, mi, se, i = (int(x) for x in m.groups())
    return ((h * 60 + mi) * 60 + se) * 1000 + i, [h, mi, se, i], True


LOGRE = re.compile(r"^(?:\[[^\]]*\] \| )?\[(DET|SAVE|PLAY|COMMAND)\]: Detection (\d+)(.*)$")


def parse_log(text, regs, d, stamped):
    """log lines -> [[who, id, line_ok]] (who: 0 DET, 1 SAVE, 2 PLAY, 3 COMMAND)"""
    out = []
    who = {"DET": 0, "SAVE": 1, "PLAY": 2, "COMMAND": 3}
    for line in [x for x in text.split("\n") if x.strip()]:
        m = LOGRE.match(line)
        if not m or (stamped and not line.startswith("[")):
            out.append([9, 0, 0])
            continue
        tag, did, rest = m.group(1), int(m.group(2)), m.group(3)
        g = regs[did - 1] if 1 <= did <= len(regs) else None
        ok = g is not None
        if ok and tag == "DET":
            ok = rest == " (start: {:.3f}, end: {:.3f}, duration: {:.3f})".format(g.start, g.end, g.duration)
        elif ok and tag == "SAVE":
            ok = rest == " saved as '{}'".format(os.path.join(d, "det_{id}_{start:.3f}_{end:.3f}.wav".format(id=did, start=g.start, end=g.end)))
        elif ok and tag == "PLAY":
            ok = rest == " played"
        elif ok and tag == "COMMAND":
            ok = rest.startswith(" command: 'consume ") and rest.endswith("'")
        out.append([who[tag], did, int(bool(ok))])
    return out


def project_fx(fx, r, present, vec, regs, visible, fmt, d, api_kw):
    import hashlib
    fsr, fsw, fch = fmt
    cmds = fx.get("commands", [])
    commands_ok = len(cmds) == len(regs) and all(c["cmd"] == "consume" and c["exists"] and c["par"] == [fsr, fsw, fch]
                                                 and c["sha"] == hashlib.sha1(bytes(g)).hexdigest() for c, g in zip(cmds, regs))
    played = b"".join(bytes.fromhex(x) for x in fx.get("played", []))
    echo_ok = played == b"".join(bytes(g) for g in regs) and (not regs or fx.get("player_params", [None])[:2] == [fsr, fch])
    logfile = bool(d) and os.path.exists(os.path.join(d, "debug.log"))
    log = parse_log(open(os.path.join(d, "debug.log")).read(), regs, d, True) if logfile else []
    elog = parse_log("\n".join(x for x in r.get("stderr", "").split("\n") if "Detection" in x or x.startswith("[")), regs, d, False) if "D" in present else []
    plots = fx.get("plots", [])
    plot_ok = False
    if len(plots) == 1:
        p0 = plots[0]
        plot_ok = (p0["sha"] == hashlib.sha1(visible).hexdigest() and p0["par"] == [fsr, fsw, fch] and p0["save_as"] == "image.png"
                   and p0["dets"] == [[float(g.start), float(g.end)] for g in regs] and p0["eth"] == api_kw.get("energy_threshold"))
    return {"ncommands": len(cmds), "commands_ok": bool(commands_ok), "nplayed": len(fx.get("played", [])), "echo_ok": bool(echo_ok), "logfile": bool(logfile),
            "log": log, "elog": elog, "nplots": len(plots), "plot_ok": bool(plot_ok)}


def check(prop, tier, replay=None):
    import_auditok()
    from auditok import core
    V = Verdict(prop, tier)
    wd = workdir("cli" + ("fx" if prop == "X04" else ""))
    tmproot = os.path.join(wd, "runs")
    os.makedirs(tmproot, exist_ok=True)
    rng = random.Random(SEED * 1000 + 15)
    V.assumptions += [
        "TLC/SANY/CommunityModules, CPython, argparse; auditok.cmdline.main runs in worker processes whose 1 s poll (time.sleep) is shortened",
        "the oracle for the detections is the API split() called with the keyword arguments module Cli prescribes, on the same input",
        "printed times are compared with the exact instant (sample index / rate) with the tolerances of O2: %S nearest millisecond, %I and fields "
        "whole milliseconds (one below an exact integer accepted)",
    ]
    mp = 2 if tier == "quick" else 3
    fxmode = prop == "X04"
    cfg = f"CONSTANTS MaxPresent = {mp} WithFx = {'TRUE' if fxmode else 'FALSE'}\nSPECIFICATION Spec\nINVARIANT Sane\nINVARIANT FieldsOK\nCONSTRAINT Export\nCHECK_DEADLOCK FALSE\n"
    res = tlc.run("CliMC", cfg, wd, name="mc", timeout=3000, mem="8g", workers=4)
    tlc.require_ok(res, "leg M")
    V.add_model("M", res)
    if res["violated"] or not res["ok"]:
        raise MachineryError(f"leg M: {res['violated']} / {res['error']}\n" + tlc.counterexample(res, 40))
    V.cov["exhaustive"] = True
    if not fxmode:
        # the field decomposition for ALL whole-millisecond values (symbolic integers)
        detail, done = tlc.apalache("CliInt", [("Exists", True), ("Unique", True), ("HoursWrap", False)], wd, timeout=240 if tier == "quick" else 900)
        V.leg("unbounded", tool="apalache-mc 0.58", module="CliInt", obligations=3, discharged=done, detail=detail,
              checker_cmd="apalache-mc check --inv=Exists|Unique|HoursWrap --length=0 CliInt.tla")
        V.cov["obligations"] = 3
        V.cov["discharged"] = done
    vecs = {}
    for j in res["json"]:
        vecs.setdefault(canon(j["opts"]), j)
    vecs = list(vecs.values())
    if tier == "thorough" and len(vecs) > 12000:
        rng.shuffle(vecs)
        vecs = vecs[:12000]
    t0 = time.time()
    jobs, metas, datas = [], [], []
    for i, v in enumerate(vecs):
        job, meta, data = build_job(i, v, tmproot, rng)
        jobs.append(job)
        metas.append(meta)
        datas.append(data)
    # two runs with an unknown time-format directive
    for extra in range(2):
        job, meta, data = build_job(len(jobs), vecs[extra], tmproot, rng)
        job["argv"] = [a for a in job["argv"]]
        if "--time-format" in job["argv"]:
            k = job["argv"].index("--time-format")
            job["argv"][k + 1] = "%h:%x"
        else:
            job["argv"] = ["--time-format", "%h:%x"] + job["argv"]
        meta["tf"] = "X"
        jobs.append(job)
        metas.append(meta)
        datas.append(data)
        vecs.append(vecs[extra])
    # ---- run the command line in worker processes
    nproc = min(NCPU, 12)
    procs = []
    for w in range(nproc):
        part = jobs[w::nproc]
        if not part:
            continue
        jf, rf = os.path.join(wd, f"jobs{w}.json"), os.path.join(wd, f"res{w}.json")
        json.dump(part, open(jf, "w"))
        env = dict(os.environ, AUDITOK_REPO=REPO, PYTHONDONTWRITEBYTECODE="1")
        procs.append((subprocess.Popen([PY, "-m", "harness.cli_worker", jf, rf], cwd=VERIF, env=env, stdout=subprocess.DEVNULL, stderr=subprocess.PIPE), rf))
    results = {}
    for p, rf in procs:
        try:
            _, err = p.communicate(timeout=1500)
        except subprocess.TimeoutExpired:
            p.kill()
            raise MachineryError("command-line worker timed out")
        if p.returncode != 0 or not os.path.exists(rf):
            raise MachineryError(f"command-line worker failed: rc={p.returncode} {err.decode(errors='replace')[-600:]}")
        for r in json.load(open(rf)):
            results[r["id"]] = r
    # ---- project every run
    runs = []
    for job, meta, data, vec in zip(jobs, metas, datas, vecs):
        r = results[job["id"]]
        fsr, fsw, fch = meta["fmt"]
        bps = fsw * fch
        api_kw = to_api_kwargs(vec["kw"])
        dets = []
        regs = []
        api_err = None
        try:
            src = data if meta["kind"] in ("stdin", "mic") else meta["path"]
            if meta["kind"] in ("stdin", "mic"):
                api_kw.pop("large_file", None)
            if (Fraction(vec["kw"]["analysis_window"], U) * fsr).denominator != 1:
                # -a times the rate is not a whole number of samples (0.01 s at 22050 Hz): split(file, analysis_window=a) counts windows of a
                # seconds, split(AudioReader(file, block_dur=a)) counts windows of the reader's actual block duration (C06 defines w that way
                # for the two kinds of input) and the two can differ by one window.  The command line reads through an AudioReader with
                # block_dur = -a, so that is the API call its parameters correspond to (observation O11 in DESIGN.md).
                from auditok import util as _u
                rkw = {k_: v_ for k_, v_ in api_kw.items() if k_ in ("sampling_rate", "sample_width", "channels", "max_read", "audio_format", "large_file")}
                skw = {k_: v_ for k_, v_ in api_kw.items() if k_ in ("min_dur", "max_dur", "max_silence", "drop_trailing_silence", "strict_min_dur", "energy_threshold", "use_channel")}
                regs = list(core.split(_u.AudioReader(src, block_dur=api_kw["analysis_window"], **rkw), **skw))
            else:
                regs = list(core.split(src, **api_kw))
        except Exception as exc:  # noqa
            api_err = type(exc).__name__
        for g in regs:
            first = round(g.start * fsr)
            n = len(g)
            dets.append({"sn": 1000 * first, "sd": fsr, "en": 1000 * (first + n), "ed": fsr, "dn": 1000 * n, "dd": fsr,
                         "sms": int(g.start * 1000), "ems": int(g.end * 1000), "dms": int(g.duration * 1000)})
        lines = []
        unparsed = 0
        pf = meta["printf"]
        sep = " " if pf is None else ("|" if "|" in pf else ("\u2192" if "\u2192" in pf else "\t"))
        hasd = pf is not None and "duration" in pf
        for ln in [x for x in r["stdout"].split("\n") if x != ""]:
            parts = ln.split(sep)
            if len(parts) != (4 if hasd else 3) or not re.fullmatch(r"\d+", parts[0]):
                unparsed += 1
                continue
            s, sf, ok1 = parse_time(meta["tf"], parts[1])
            e, ef, ok2 = parse_time(meta["tf"], parts[2])
            dd, df, ok3 = parse_time(meta["tf"], parts[3]) if hasd else (0, [0, 0, 0, 0], True)
            lines.append({"id": int(parts[0]), "s": s, "e": e, "d": dd, "hasd": hasd, "sf": sf, "ef": ef, "fields_ok": bool(ok1 and ok2 and ok3)})
        # files
        present = set(vec["present"])
        d = meta["dir"]
        expected_files = {os.path.basename(meta["path"])}
        stream_ok = joined_ok = regions_ok = True
        nvis = len(data) // bps
        if vec["kw"]["max_read"] >= 0:
            nvis = min(nvis, round(Fraction(vec["kw"]["max_read"], U) * fsr))
        rawout = vec.get("outfmt", "wav") == "raw"

        def read_out(path_):
            if rawout:
                with open(path_, "rb") as f_:
                    return (fsr, fsw, fch), f_.read()
            with wave.open(path_) as wf_:
                return (wf_.getframerate(), wf_.getsampwidth(), wf_.getnchannels()), wf_.readframes(-1)
        if "O" in present and vec["exit"] == 0:
            expected_files.add("stream_out.wav")
            try:
                hdr, fb = read_out(os.path.join(d, "stream_out.wav"))
                if "j" in present:
                    nsil = round(Fraction(vec["opts"]["j"], U) * fsr)
                    exp = (b"\0" * (nsil * bps)).join(bytes(g) for g in regs)
                    joined_ok = hdr == (fsr, fsw, fch) and fb == exp
                else:
                    stream_ok = hdr == (fsr, fsw, fch) and fb == data[:nvis * bps]
            except Exception:
                stream_ok = joined_ok = False
        if "o" in present and vec["exit"] == 0:
            for k, g in enumerate(regs, start=1):
                name = "det_{id}_{start:.3f}_{end:.3f}.wav".format(id=k, start=g.start, end=g.end)
                expected_files.add(name)
                try:
                    hdr_, fb_ = read_out(os.path.join(d, name))
                    if fb_ != bytes(g) or hdr_ != (fsr, fsw, fch):
                        regions_ok = False
                except Exception:
                    regions_ok = False
        fxp = project_fx(r.get("fx") or {}, r, present, vec, regs, data[:nvis * bps], (fsr, fsw, fch), d, api_kw)
        if "G" in present and vec["exit"] == 0:
            expected_files.add("debug.log")
        extra = [f for f in os.listdir(d) if f not in expected_files]
        # the device may be opened more than once (observation O13: the pinned code opens it twice and leaks the first stream); every opening must
        # carry the prescribed parameters
        mo_ = (r.get("fx") or {}).get("mic_opens", [])
        fxp["mic_open"] = mo_[0] if mo_ and all(x_ == mo_[0] for x_ in mo_) else [0, 0, 0, 0, 0]
        fxp["mic_opens"] = len(mo_)
        runs.append({"mic": meta["kind"] == "mic", "micopen": list(vec.get("micopen", [0, 0, 0, 0, 0])), "hasfx": bool(job.get("fx")), "fx": fxp, "present": sorted(present), "tf": meta["tf"], "exit": r["exit"] if isinstance(r["exit"], int) else -1,
                     "raised": r["raised"] is not None, "lines": lines, "dets": dets, "stream_ok": bool(stream_ok), "joined_ok": bool(joined_ok),
                     "regions_ok": bool(regions_ok), "extra_files": len(extra), "unparsed": unparsed,
                     "info": {"argv": job["argv"][:-1] + [os.path.basename(job["argv"][-1])], "kind": meta["kind"], "fmt": meta["fmt"], "api_kwargs": {k: v for k, v in api_kw.items()},
                              "stdout": r["stdout"][:400], "stderr": r["stderr"][-200:], "raised": r["raised"], "api_error": api_err, "extra_files": extra[:5],
                              "threads_left": r.get("threads_left")}})
    # ---- the duration formatter on its own: all carries up to 100 hours (a recording of that length cannot be synthesised here)
    from auditok import util as _util
    grid = set()
    for base in (0, 999, 1000, 59999, 60000, 3599999, 3600000, 86399999, 86400000, 90061001, 172800000, 359999999, 360000000):
        for dlt in (-1001, -1, 0, 1, 999, 1000, 61001):
            if base + dlt >= 0:
                grid.add(base + dlt)
    for _ in range(300 if tier == "quick" else 60000):
        grid.add(rng.randint(0, 360000000))
    grid = sorted(grid)
    for tfk, tf in TFS:
        fmt = _util.make_duration_formatter(tf)
        lines, dets = [], []
        for j, ms in enumerate(grid, start=1):
            v = ms / 1000
            s_, f_, ok_ = parse_time(tfk, fmt(v))
            lines.append({"id": j, "s": s_, "e": s_, "d": 0, "hasd": False, "sf": f_, "ef": f_, "fields_ok": bool(ok_)})
            dets.append({"sn": ms, "sd": 1, "en": ms, "ed": 1, "dn": 0, "dd": 1, "sms": int(v * 1000), "ems": int(v * 1000), "dms": 0})
        runs.append({"mic": False, "micopen": [0, 0, 0, 0, 0], "hasfx": False, "fx": dict(project_fx({}, {"stderr": ""}, set(), {"exit": 0}, [], b"", (1, 1, 1), None, {}), mic_open=[0, 0, 0, 0, 0], mic_opens=0), "present": [], "tf": tfk, "exit": 0, "raised": False, "lines": lines, "dets": dets, "stream_ok": True, "joined_ok": True,
                     "regions_ok": True, "extra_files": 0, "unparsed": 0,
                     "info": {"argv": [f"make_duration_formatter({tf!r}) on {len(grid)} values up to 100 h"], "kind": "formatter", "fmt": [], "api_kwargs": {},
                              "stdout": " ".join(fmt(ms / 1000) for ms in grid[:6]), "stderr": "", "raised": None, "api_error": None, "extra_files": [], "threads_left": 0}})
    # ---- every --time-format template of up to 3 (thorough: 4) tokens: raised exactly when CliTpl says so; accepted ones render the fields
    if not fxmode:
        from auditok.exceptions import TimeFormatError
        rest = tlc.run("CliTpl", f"CONSTANTS MaxTok = {3 if tier == 'quick' else 4}\nSPECIFICATION Spec\nINVARIANT Sane\nCONSTRAINT Export\nCHECK_DEADLOCK FALSE\n",
                       wd, name="tpl", timeout=1200, mem="4g", workers=4)
        tlc.require_ok(rest, "leg M templates")
        V.add_model("M:templates", rest)
        if rest["violated"] or not rest["ok"]:
            raise MachineryError(f"leg M templates: {rest['violated']} / {rest['error']}")
        tpls = {}
        for j in rest["json"]:
            tpls.setdefault(canon(j["tpl"]), j)
        nbad = 0
        probe = [0.0, 0.999, 59.9996, 3723.25, 86399.999, 360000.001]
        for j in tpls.values():
            text = "".join(j["tpl"])
            try:
                f_ = _util.make_duration_formatter(text)
                raised = None
            except TimeFormatError:
                raised = "TimeFormatError"
            except Exception as exc:  # noqa
                raised = type(exc).__name__
            good = (raised is None) == bool(j["ok"]) and raised in (None, "TimeFormatError")
            shown = ""
            if good and raised is None and j["kind"] == "F":
                for v in probe:
                    W_ = int(v * 1000)
                    fld = {"%h": "%02d" % (W_ // 3600000), "%m": "%02d" % ((W_ // 60000) % 60), "%s": "%02d" % ((W_ // 1000) % 60), "%i": "%03d" % (W_ % 1000)}
                    exp_ = "".join(fld.get(tok_, tok_) for tok_ in j["tpl"])
                    shown = f_(v)
                    if shown != exp_:
                        good = False
                        shown = f"{shown!r} for {v}, expected {exp_!r}"
                        break
            if not good:
                nbad += 1
                V.violation({"template": text}, f"make_duration_formatter({text!r}): raised={raised} {shown}; CliTpl says the template is "
                            f"{'accepted' if j['ok'] else 'an unknown directive (TimeFormatError)'}", {"leg": "templates", "case": j})
        V.cov["traces_validated_against_impl"] += len(tpls)
        V.leg("templates", templates=len(tpls), accepted=sum(1 for j in tpls.values() if j["ok"]), mismatches=nbad)
    tcfg = "SPECIFICATION Spec\nCONSTRAINT Mon\nPOSTCONDITION Post\nCHECK_DEADLOCK FALSE\n"
    rows, st = judge("CliTrace", tcfg, runs, wd, "cli", weight=lambda x: len(x["lines"]) + 1, strip=lambda x: {k: v for k, v in x.items() if k != "info"})
    V.cov["states"] += st
    for run, row in zip(runs, rows):
        if (row[2] in (2, 4)) if not fxmode else (row[2] in (3, 4)):
            inf = run["info"]
            V.violation({"argv": inf["argv"], "kind": inf["kind"]},
                        (f"side effects {run['fx']} -- " if fxmode else "") + f"auditok {' '.join(inf['argv'])} ({inf['kind']} input {inf['fmt']}): exit={run['exit']} raised={inf['raised']} stdout={inf['stdout'][:160]!r} "
                        f"files(stream,joined,regions,extra)={run['stream_ok'], run['joined_ok'], run['regions_ok'], inf['extra_files']} unparsed={run['unparsed']}; "
                        f"API split(**{inf['api_kwargs']}) -> {[(d_['sn'] / d_['sd'], d_['en'] / d_['ed']) for d_ in run['dets']]} (ms){' API error ' + str(inf['api_error']) if inf['api_error'] else ''}",
                        {"leg": "R", "run": run})
    V.cov["traces_validated_against_impl"] += len(runs)
    V.count(len(runs), (canon(r_["info"]["argv"]) for r_ in runs if r_["dets"]))
    V.leg("R", runs=len(runs), wall_s=round(time.time() - t0, 2), with_detections=sum(1 for r_ in runs if r_["dets"]))
    ex = next((r_ for r_ in runs if len(r_["lines"]) >= 2), runs[0])
    V.sample({"leg": "R", "argv": ex["info"]["argv"], "stdout": ex["info"]["stdout"][:200], "api_detections(ms)": [(d_["sn"] / d_["sd"], d_["en"] / d_["ed"]) for d_ in ex["dets"]]})
    shutil.rmtree(tmproot, ignore_errors=True)
    if fxmode:
        rc = V.finish(rule="X04 (beyond the list): option vectors with at least one side-effect option (-C, -E, --debug-file, -D, -T, --save-image); the command "
                           "line runs with recorded os.system, a fake pyaudio device and a recorded plot(); projections judged by CliTrace!X04")
        from .common import EVIDENCE, OUT
        try:
            shutil.move(os.path.join(EVIDENCE, "X04.json"), os.path.join(OUT, "X04.json"))
        except OSError:
            pass
        return rc
    return V.finish(
        rule="leg M: every option vector with at most MaxPresent options present x palette values; leg R: one command-line execution per vector "
             "(wav / raw / stdin input, short and long option names, three time formats, three printf templates rotate) compared by TLC with the API "
             "detections for the prescribed keyword arguments. distinct = canonical argv; non-trivial = at least one detection")
