"""Generates /verif/MANIFEST.json from one table (run: /venv/bin/python -m harness.manifest)."""
import json
import os

from .common import VERIF

ALL = ["C%02d" % i for i in range(1, 21)]

TOK_EXTRA = (" Leg S: the repository's own tokenizer / split / worker tests are run with a tracing pytest plugin (wrapping tokenize() from outside) "
             "and every execution they make is judged by TLC with the same monitors. Legs T also drive ONE tokenizer object through several "
             "streams (sequentially and with all generators requested up front), each run judged as a fresh run.")
TOK_NOTE = ("Trusted: TLC/SANY, CommunityModules Json/IOUtils, CPython, the recorder/projection code in harness/tok.py. "
            "Frames are abstracted to (index, validity). Leg M is exhaustive only inside the tier grid "
            "(quick: all streams <= 7 frames x 288 tuples + an init-phase grid to 8 frames); beyond it the claim rests on "
            "seeded sampling judged by TLC.")

READER_NOTE = ("Trusted: TLC/SANY, CommunityModules, CPython, wave module, the bytes<->sample-id projection (harness/audio.py). "
               "Durations are generated so that the exact product with the rate is an integer or >= 0.05 from the rounding switch point "
               "(float ambiguity, observation O1); hop sizes below one sample are not generated. Exhaustive only within the tier bound.")

SPLIT_NOTE = ("Trusted: TLC/SANY, CommunityModules, CPython, wave, the recorder in harness/split.py (region bytes are compared with the "
              "input slice by the projection). Durations live on a 0.1 ms grid; analysis windows whose float product with the rate is "
              "ambiguous (O1) are not generated; per-window validity is taken from the logged validator (independent of C07).")

WORKERS_NOTE = ("Trusted: TLC/SANY, CPython threading, the controller harness/sched.py (controlled queue, start/join/is_alive wrappers). "
                "The OS scheduler is replaced by the controller: preemption BETWEEN two scheduling points is not explored (all shared state "
                "of workers.py is behind the queues or thread-local between two points; Thread.is_alive is made a scheduling point). "
                "Liveness under weak fairness of non-timeout steps. The CLI Ctrl-C handler itself is exercised by C15's runs, not here.")

REGION_NOTE = ("Trusted: TLC/SANY, CommunityModules, CPython, the bytes<->sample-id projection. View instants are three-decimal values (exact "
               "rationals in the spec); within 1/20 sample of a truncation/rounding switch point any index within one sample period is accepted "
               "(the tolerance the statement grants); exact ties of the stop are accepted either way.")

CHECKS = {
    "C01": dict(
        text="TLC proves C01 on the implementation-shaped Tokenizer spec for every parameter tuple x validity stream of the tier "
             "grid; every exported terminal behaviour is replayed through the real StreamTokenizer; seeded long runs of the real "
             "code (5 frame types, 2 validator kinds, 3 delivery modes) are judged by TLC with the same C01 formula on a free "
             "observation trace spec. Leg F: runs of the real tokenizer constructed with non-integral lengths (0.3/0.1, k+-1e-9, "
             "k+.5, ...), judged by TLC on the C01 monitor only (DESIGN 11.3/O7). Bounded-exhaustive design proof + conformance in "
             "both directions." + TOK_EXTRA,
        ref="DESIGN.md 5/C01, 3.2, 4.4, 11.3/O7", technique="TLA+ model checking (TLC) + spec->code behaviour replay + code->spec trace validation",
        note=TOK_NOTE),
    "C02": dict(
        text="As C01 with formula C02 (length bounds, remainder rule); the constructor accept/reject decision is compared with "
             "TokCore!Accepted on the whole integer grid -1..5 (72 030 tuples). Both length bounds are proved for ALL parameter "
             "values and stream lengths by the inductive invariant of TokenizerInt (Apalache); TLC checks AbsInv on the concrete registers.",
        ref="DESIGN.md 5/C02", technique="TLA+ model checking (TLC) + behaviour replay + trace validation; constructor decision table",
        note=TOK_NOTE),
    "C03": dict(
        text="As C01 with formula C03 (no run of more than max_continuous_silence invalid frames inside a chain of contiguous "
             "tokens, first/last frame validity). The run bound is also proved for ALL parameter values and stream lengths "
             "by an inductive invariant of the integer abstraction TokenizerInt (Apalache, 3 obligations); TLC checks the same invariant on "
             "the concrete registers (AbsInv). On observed runs the statement is also evaluated on the DELIVERED data (per-frame validity "
             "logged with every token), which does not presuppose that tokens are slices.",
        ref="DESIGN.md 5/C03", technique="TLA+ model checking (TLC) + behaviour replay + trace validation", note=TOK_NOTE),
    "C04": dict(
        text="TLC proves that the automaton refines the declarative greedy segmentation Seg (written without reference to the "
             "automaton) for init_min <= 1, plus the named corollaries; same formula as monitor on observed executions.",
        ref="DESIGN.md 5/C04", technique="TLA+ refinement check (TLC) + behaviour replay + trace validation", note=TOK_NOTE),
    "C07": dict(
        text="Energy.tla transcribes the decision (signed little-endian decode, de-interleave, mean square vs 10^(T/10), -200 dB floor, "
             "channel selection incl. negative indices and errors) in exact integer arithmetic; TLC enumerates every window of the bound "
             "x thresholds and checks monotonicity, any = max, aliases, errors; one implementation test per exported case (x width x "
             "selector spelling) against AudioEnergyValidator; seeded raw windows judged by TLC (EnergyTrace decodes the bytes itself); "
             "full-scale samples decided by a Python mirror of the formula that is validated against TLC on every judged case.",
        ref="DESIGN.md 5/C07", technique="TLA+ case enumeration (TLC) + one implementation test per case + trace validation; translation-checked mirror for extremes",
        note="Trusted: TLC/SANY, CPython, numpy float64 away from exact boundaries. TLC integers are 32-bit (bounded sample magnitudes in the model); "
             "cases within 1e-9 (relative) of a threshold are asserted only where float evaluation is exact (mean square 10^(2j), 1/2/4 channels for mix). "
             "Thresholds are multiples of 10 dB in TLC, of 5 dB in the mirror."),
    "C08": dict(
        text="Hand-over timing (at/fl observed at the consumer), exactly one end-of-stream request, append-only output and prefix "
             "consistency (FlushCandidateKept) proved by TLC on the grid; real code run in generator, callback and list mode and "
             "on every prefix of sampled streams, judged by TLC; split() laziness (samples pulled from a logging AudioSource when each "
             "region is yielded, single end-of-stream request) judged on SplitTrace.",
        ref="DESIGN.md 5/C08", technique="TLA+ model checking (TLC, invariants + action property) + behaviour replay + trace validation",
        note=TOK_NOTE),
    "C05": dict(
        text="TLC proves on Split.tla (Tokenizer + fixed framing with a partial last window + region construction) that a region's "
             "claimed start (start window x block size) is the true stream offset of its bytes and regions are ordered and disjoint; "
             "real split()/AudioRegion.split() runs (1/2/4-byte, 1-4 channels, rates 8..44100, partial last windows, three containers, "
             "custom and energy validators) are recorded at the API boundary and judged by TLC on SplitTrace: geometry + C01-C04 over the windows.",
        ref="DESIGN.md 5/C05", technique="TLA+ model checking (TLC) + code->spec trace validation with property monitors", note=SPLIT_NOTE),
    "C06": dict(
        text="Durations.tla states the window counts in exact integer arithmetic on a 0.1 ms grid; TLC checks them against the wording "
             "(smallest covering count, largest count not exceeding, reject table) and, as trace judge, recomputes the tokenizer "
             "parameters from the logged durations and evaluates C02/C03/C04 on the windows of real split() runs on probe recordings "
             "(isolated bursts of 1..MinLen+1 windows, over-long burst, gaps of MaxSil and MaxSil+1) incl. decimal quotients that are "
             "not representable in binary floating point; ValueError vs success decided for the whole grid. The two characterisations (smallest covering "
             "count, largest count not exceeding, whole quotients exact) are also proved for ALL positive durations and windows, integer and rational, "
             "by Apalache on DurationsInt (symbolic integers, with a refuted false formula as vacuity control).",
        ref="DESIGN.md 5/C06", technique="TLA+ model checking (TLC) of the integer formulas + unbounded symbolic check (Apalache) + trace validation of real split() runs", note=SPLIT_NOTE),
    "C09": dict(
        text="Container kinds (bytes, AudioRegion + method, AudioSource, AudioReader with equal block duration, raw/wav files eager/lazy, "
             "by extension / audio_format / fmt, Path, stdin) x alias spellings (long / short / both with a conflicting short value, "
             "incl. falsy values such as energy_threshold=0) x max_read: every run is judged by TLC on SplitTrace against the same "
             "configuration and must reproduce the regions of the reference run (monitor C09 / peer).",
        ref="DESIGN.md 5/C09", technique="TLA+ trace validation (TLC) of variant runs against a reference run; model checking of Split.tla", note=SPLIT_NOTE),
    "C10": dict(
        text="TLC proves on the Reader spec that the implementation-shaped wrapper stack (limiter counter, overlap generator phases, "
             "recorder) returns exactly the declarative closed form of the statement for every configuration (n,b,h,max_read,record) "
             "and operation history of the bound; every exported maximal history is executed on a real AudioReader over 7 source "
             "kinds (incl. wav files laid out unlike Python's wave module writes them, pipe-like stdin, pre-positioned buffer sources); long seeded "
             "histories with decimal durations, reads before open() and close() on recording readers are judged by TLC (ReaderTrace). Construction "
             "rejections are a decision table. The framing closed form (which interval of the visible samples the k-th read returns) is proved for ALL source "
             "lengths, block / hop sizes, limits and any number of reads by an inductive invariant of the integer abstraction ReaderInt (Apalache); TLC "
             "checks the abstraction's shape invariant on the concrete registers of Reader (AbsShape).",
        ref="DESIGN.md 5/C10, Appendix D", technique="TLA+ model checking (TLC) + unbounded inductive invariant (Apalache) + spec->code history replay + code->spec trace validation",
        note=READER_NOTE),
    "C11": dict(
        text="TLC enumerates every transition (state x call x argument) of the abstract audio source for buffer / raw / wav / stdin and "
             "checks C11 on it; leg R is one implementation test per transition (pre-state established on a fresh real source, result "
             "and post-state compared); leg T validates seeded call sequences of the real sources (incl. dense position_ms / position_s "
             "sweeps at realistic rates, and reads of more than 2^20 samples from multi-megabyte 1-3 channel files as compressed events) against "
             "SourceTrace with TLC.",
        ref="DESIGN.md 5/C11", technique="TLA+ model checking (TLC) + one implementation test per model transition + trace validation",
        note=READER_NOTE + " read(0), sub-sample negative instants and non-dyadic position_s values are not generated (O3-O5); stdin is a BytesIO-backed sys.stdin."),
    "C12": dict(
        text="Workers.tla models workers.py at scheduling-point granularity (every Queue put/get/get_nowait, source read, Thread start/"
             "begin/join) on top of the tokenizer core; TLC explores every interleaving, timeout firing and stop point of the tier "
             "configurations: C12Safe, deadlock freedom, Termination (<>[]AllDone under weak fairness). The REAL threads run under a "
             "controller that replaces auditok.workers.Queue and Worker.start/join/is_alive: TLC -simulate behaviours are followed step "
             "by step (leg R) and seeded schedule policies explore larger inputs (leg T); every run is judged by TLC on WorkersObs "
             "(monitors on the observed end state: ids 1..n in order for every observer, detections = segmentation of the blocks read, "
             "all threads ended) and WorkersTrace (step conformance). Leg X enumerates depth-first EVERY schedule of tiny pipelines on the real "
             "threads (complete for 1 window / 1 observer: 256 schedules); observers include PrintWorker, RegionSaverWorker, PlayerWorker (mock "
             "player), CommandLineWorker (recorded command); the command-line main loop itself runs under the controller. The controlled queue "
             "implements queue.Queue faithfully (bounded, timed / non-blocking put and get), Thread.join(timeout) may be let expire; runs of "
             "hundreds (thorough: 10^4) of detections under a descriptor limit of 200 cover per-detection resources.",
        ref="DESIGN.md 5/C12, 3.3, 4.3", technique="TLA+ model checking incl. liveness (TLC) + schedule replay into real threads + trace validation",
        note=WORKERS_NOTE),
    "C13": dict(
        text="Same model and controller: C13Safe (saved file is a prefix of the blocks read, equal and closed at the end, any cache "
             "threshold); observed runs with StreamSaverWorker (cache thresholds 0..inf), AudioEventsJoinerWorker (joined file = events "
             "separated by round(silence*rate) zero samples), RegionSaverWorker (file names from the template, audio = detection) and "
             "PrintWorker are projected and judged by TLC on WorkersObs; gaps include buffer-sized (2^k frames) and exact-tie durations; the thorough "
             "tier holds a run of more than 10^4 detections (ids, one file per detection).",
        ref="DESIGN.md 5/C13", technique="TLA+ model checking (TLC) + schedule replay into real threads + trace validation", note=WORKERS_NOTE),
    "C14": dict(
        text="The stop request (stop_all) is enabled in every running state of the model (exhaustive over the crash point and all "
             "subsequent interleavings): C14Safe (detections = segmentation of exactly the blocks read, as if the stream had ended there), "
             "termination. On the real threads the stop is injected at EVERY step index of base schedules (fault enumeration) plus "
             "random points; monitors: observers' logs, saved file = blocks read and valid wav, all threads ended. The Ctrl-C path of "
             "cmdline.main is exercised under the controller: its 1 s poll is a scheduling point at which KeyboardInterrupt is delivered.",
        ref="DESIGN.md 5/C14", technique="TLA+ model checking incl. liveness (TLC) + systematic stop injection into controlled real threads + trace validation",
        note=WORKERS_NOTE, cat="model_checking"),
    "C15": dict(
        text="Cli.tla maps the set of options given on the command line to the API keyword arguments (documented defaults for absent "
             "options), exit status, printing and files; TLC enumerates every option vector with at most 2 (quick) / 3 (thorough) options "
             "present x palette values and exports the prescription; each vector is executed with auditok.cmdline.main (wav / raw / stdin, "
             "short and long option names, %S / %I / %h:%m:%s.%i, three printf templates) and TLC (CliTrace) compares exit status, line "
             "count, ids, every printed time with the exact instant of the API detection obtained with the prescribed kwargs, field ranges "
             "and recomposition, and the projected -O / -o / -j files; unknown directives must raise. Existence and uniqueness of the field tuple are "
             "proved for ALL whole-millisecond values by Apalache on CliInt; every --time-format template of up to 3 (thorough: 4) tokens is enumerated by TLC "
             "(CliTpl) with its outcome -- accepted or unknown directive -- and built with make_duration_formatter.",
        ref="DESIGN.md 5/C15", technique="TLA+ enumeration of option vectors (TLC) + one command-line execution per vector judged by TLC against the API",
        note="Trusted: TLC/SANY, CPython, argparse; main() runs in worker processes with its 1 s poll shortened. Printed whole-millisecond values must "
             "equal int(v*1000) of the float v the API reports and lie within one millisecond below the exact instant (O2); %S within half a "
             "millisecond (+5%). Inputs include 22 050 Hz files (where -a is not a whole number of samples the API call the parameters correspond to is "
             "split(AudioReader(input, block_dur=a)), observation O11) and a non-ASCII --printf template. -E/-C/--debug-file/-D/-T/--save-image are "
             "exercised by the extra check X04, the microphone by X01."),
    "C16": dict(
        text="Region.tla states slicing twice: implementation-shaped (byte offsets, unnormalised stop) and declarative (Python slicing on "
             "samples); TLC checks them equal for every (length, bytes-per-sample, start, stop) of the bound and enumerates the seconds view "
             "on an eighth-of-a-sample grid (truncated start, rounded stop; bounded nondeterminism only within 1/20 sample of a switch "
             "point); one implementation test per case; seeded call sequences on real regions (sample / seconds / millis views, len, "
             "duration, TypeError cases, millis view compared with the seconds view at t/1000) judged by TLC on RegionTrace. Thorough tier: the "
             "agreement of the byte-offset computation with Python slicing is proved for ALL lengths, sample sizes and bounds (None included) by "
             "Apalache on RegionInt (about two minutes of Z3).",
        ref="DESIGN.md 5/C16", technique="TLA+ case enumeration (TLC) + one implementation test per case + trace validation", note=REGION_NOTE),
    "C17": dict(
        text="Region.tla: the division loop vs 'min(n,len) pieces differing by at most one whose concatenation is the original' checked by TLC "
             "for every (length, divisor); concat / sum / repeat / join / silence / equality / parameter errors / frozen fields / ragged data "
             "as actions of RegionTrace over a POOL of regions whose results feed later operations; after every call all pool members are "
             "re-projected (operands unchanged). Silence durations include dyadic values whose product with the rate is exactly k + 1/2 (round half to even). "
             "The division lengths (sum = original, no empty piece, the longer pieces among the min(n,len) pieces) are proved for ALL lengths and divisors "
             "by Apalache on RegionInt.",
        ref="DESIGN.md 5/C17", technique="TLA+ case enumeration (TLC) + trace validation of operation sequences over a region pool", note=REGION_NOTE),
    "C18": dict(
        text="Files.tla is a file-system state machine (names -> format, header parameters, sample ids): TLC explores every history of saves "
             "(wav/raw, exists_ok) and loads (skip/max_read on a half-sample grid) of the bound and checks load o save = identity, "
             "load(skip,max_read) = the slice, exists_ok=False never changes an existing file; exported histories are executed with real files; "
             "seeded histories (7 sample formats, placeholder templates, str/Path names, eager/lazy, decimal skip/max_read, numpy export decoded by "
             "TLC with Energy!Window, wav files planted by other software with a non-canonical chunk layout, multi-megabyte files loaded with skip / "
             "max_read beyond 2^20 samples as compressed events) are judged by TLC on FilesTrace.",
        ref="DESIGN.md 5/C18", technique="TLA+ model checking (TLC) + history replay with real files + trace validation",
        note="Trusted: TLC/SANY, CommunityModules, CPython, wave, numpy, the local file system; file contents are read back byte-for-byte and projected "
             "to sample ids; expected file names are rendered by the harness from the region's attributes; skip/max_read at least 1/20 sample from a "
             "rounding switch point."),
    "C19": dict(
        text="Same Reader spec: invariants C19 (recorded data = consumed prefix, each sample once, never beyond max_read) and C19Replay "
             "(blocks after a rewind replay those before it); data before the first rewind and data/rewind on non-recording readers "
             "are error outcomes of the spec; legs R/T as for C10 with histories read^k rewind read^j rewind ..., close() before a rewind, recorders over "
             "pre-positioned buffer sources, and one history of more than 4 000 reads replayed after the rewind.",
        ref="DESIGN.md 5/C19, Appendix D", technique="TLA+ model checking (TLC) + spec->code history replay + code->spec trace validation",
        note=READER_NOTE),
    "C20": dict(
        text="TokenizerReuse.tla is a self-composition: a register set driven through any first stream (run to its end or abandoned at any "
             "suspension point) and re-initialised exactly as _reinitialize does is stepped in lock-step with a fresh one on every second stream; "
             "TLC proves equal tokens (and the explanatory invariant about registers read before being overwritten). One REAL tokenizer is "
             "reused after complete / dropped / kept-alive / late-closed generators and list / callback runs, each later run judged by TLC as a "
             "fresh run; repeated split() of the same bytes / region / rewound recorder (SplitTrace, peer), one energy validator on shuffled "
             "windows incl. one buffer refilled in place (EnergyTrace), buffer source close/reopen (SourceTrace), several splits with equal parameters "
             "alive at once and consumed interleaved (SplitTrace).",
        ref="DESIGN.md 5/C20", technique="TLA+ self-composition model checking (TLC) + trace validation of reused real objects", note=TOK_NOTE),
}


def build():
    checks = []
    for pid in ALL:
        if pid not in CHECKS:
            continue
        c = CHECKS[pid]
        checks.append({
            "property_id": pid,
            "quick_cmd": f"./check {pid} quick",
            "thorough_cmd": f"./check {pid} thorough",
            "evidence_file": f"evidence/{pid}.json",
            "replay_cmd_template": f"./check {pid} --replay {{path}}",
            "engine": "tlc",
            "level_claimed": {"category": c.get("cat", "model_checking"), "text": c["text"], "design_ref": c["ref"]},
            "level_note": c["note"],
            "technique": c["technique"],
        })
    na = [{"property_id": p, "reason": "no check registered"} for p in ALL if p not in CHECKS]
    m = {
        "version": 1,
        "setup_cmd": "./setup.sh",
        "hooks": {
            "guard": "AUDITOK_VERIF",
            "enable": "no source hooks are needed: every observation is made at the public API and the thread scheduler is injected "
                      "from the harness (DESIGN.md 2.3); the guard name is reserved and unused",
            "baseline_off_cmd": "cd /repo && /venv/bin/python -m pytest -ra -q -p no:cacheprovider --timeout=900 --continue-on-collection-errors",
            "source_commits": [],
            "add_only": True,
        },
        "engines": [
            {"name": "tlc", "path": "/opt/veriftools/tla/tla2tools.jar", "serves_properties": sorted(CHECKS),
             "kind_free_text": "TLC 1.8 explicit-state model checker; also used as batched trace judge (spec/*Trace.tla)"},
        ],
        "checks": checks,
        "notes": "Entry point ./check <ID> quick|thorough [--replay path]; AUDITOK_REPO selects the tree under test (default /repo). "
                 "Exit 0 held / 1 VIOLATION / 2 machinery error. known_findings.txt lists open and fixed findings (five genuine defects of the pinned tree, "
                 "all repaired by fix: commits 1da95fc, ee34457, 5d5196e, 2aded39, b70ba7d in /repo; tools/revert_check.sh shows each is reported again when "
                 "reverted). Beyond the 20 listed properties the same machinery carries six extra checks that are not claimed here (./check X01 .. X06: microphone / "
                 "player, export files and converter chain, processing log, command-line side effects, io.py decision tables, a failing source), see DESIGN.md 11.2/9. "
                 "Observations that are not violations of a listed property are O1-O13 in DESIGN.md 11.3. seeded/ holds 146 independently written, confirmed "
                 "bug-introducing changes and 28 behaviour-preserving ones with what each check said about them (DESIGN.md 13).",
        "not_applicable": na,
    }
    with open(os.path.join(VERIF, "MANIFEST.json"), "w") as f:
        json.dump(m, f, indent=1)
    return m


if __name__ == "__main__":
    m = build()
    print("checks:", [c["property_id"] for c in m["checks"]], "not_applicable:", len(m["not_applicable"]))
