"""C20: results never depend on an object's earlier use.

leg M : TLC on TokenizerReuse (self-composition): one register set is driven through an arbitrary first stream
        (run to its end, or abandoned at any suspension point), re-initialised exactly as _reinitialize does
        (silence run, init count and start frame are NOT reset), then stepped in lock-step with a fresh register
        set on the same second stream; invariants: same tokens, and the explanatory C20Strong.
leg T : (a) ONE real StreamTokenizer driven through two or three streams -- after a complete run, after a partially
        consumed generator that is dropped, kept alive, or closed in the middle of the later run -- the later run is
        recorded and judged by TLC as a FRESH run (TokenizerObsTrace monitors, TokenizerTrace conformance, and
        peer = tokens of a fresh tokenizer); (b) split() repeated on the same bytes / AudioRegion / rewound recorder,
        judged on SplitTrace with peer = first result; (c) one AudioEnergyValidator asked about shuffled windows,
        judged on EnergyTrace; (d) buffer source close / reopen sequences judged on SourceTrace.
"""
import os
import random
import shutil
import time

from . import tlc
from . import tok as T
from .common import SEED, MachineryError, Verdict, canon, import_auditok, workdir
from .judge import judge


def reuse_case(core, util, rng, tier):
    p = T.rand_params(rng, "C20")
    n1 = rng.choice([0, 1, rng.randint(0, 12), rng.randint(0, 40)])
    n2 = rng.choice([1, rng.randint(0, 12), rng.randint(0, 40 if tier == "quick" else 200)])
    s1 = T.rand_stream(rng, p, n1, "C20")
    # first streams that end exactly on a max_length cut are the interesting leftovers
    if rng.random() < .4:
        s1 = [False] * rng.randint(0, 2) + [True] * (p["max"] * rng.randint(1, 2))
    s2 = T.rand_stream(rng, p, n2, "C20")
    if rng.random() < .4:
        s2 = [True] * rng.randint(1, max(1, p["min"])) + [False] * (p["sil"] + 2) + s2
    cur = {"ev": None, "frames": None}

    def val(f):
        cur["ev"].append({"e": "V", "v": bool(f[1])})
        return f[1]

    class Src(util.DataSource):
        def __init__(s_, stream, ev):
            s_.s, s_.i, s_.ev = stream, 0, ev

        def read(s_):
            if s_.i >= len(s_.s):
                s_.ev.append({"e": "EOS"})
                return None
            s_.ev.append({"e": "R", "v": bool(s_.s[s_.i])})
            s_.i += 1
            return (s_.i - 1, s_.s[s_.i - 1])
    tk = core.StreamTokenizer(val, p["min"], p["max"], p["sil"], init_min=p["imin"], init_max_silence=p["isil"], mode=T.mode_of(p))
    how = rng.choice(["complete", "complete", "drop", "keep", "late_close", "list", "callback", "upfront", "fault", "fault"])
    ev1 = []
    cur["ev"] = ev1
    gen1 = None
    ev2 = []
    gen2_early = None
    if how == "upfront":
        # both generators are requested before either is consumed; they are then consumed strictly one after the other
        g1 = tk.tokenize(Src(s1, ev1), generator=True)
        gen2_early = tk.tokenize(Src(s2, ev2), generator=True)
        for _ in g1:
            pass
    if how == "upfront":
        pass
    elif how == "fault":
        # the earlier run is aborted by an exception raised by its source (or its validator) in the middle of a candidate token
        class Boom(Exception):
            pass
        fail_at = rng.randint(1, max(1, len(s1)))
        seen = [0]
        src1 = Src(s1 + [True, True], ev1)
        real_read = src1.read

        def failing_read():
            if seen[0] == fail_at:
                raise Boom()
            seen[0] += 1
            return real_read()
        src1.read = failing_read
        try:
            if rng.random() < .5:
                for _ in tk.tokenize(src1, generator=True):
                    pass
            else:
                tk.tokenize(src1)
        except Boom:
            pass
    elif how == "complete":
        for _ in tk.tokenize(Src(s1, ev1), generator=True):
            pass
    elif how == "list":
        tk.tokenize(Src(s1, ev1))
    elif how == "callback":
        tk.tokenize(Src(s1, ev1), callback=lambda *a: None)
    else:
        gen1 = tk.tokenize(Src(s1, ev1), generator=True)
        k1 = rng.choice([0, 1, 1, 2])
        for _ in range(k1):
            if next(gen1, None) is None:
                break
        if how == "drop":
            gen1.close() if rng.random() < .5 else None
            gen1 = None
    # ---- the later run, recorded
    cur["ev"] = ev2
    gen2 = gen2_early if gen2_early is not None else tk.tokenize(Src(s2, ev2), generator=True)
    close_at = rng.choice([1, 1, 2, 3])
    k = 0
    try:
        for data, s, t in gen2:
            ev2.append({"e": "T", "s": s, "t": t, "fr": [d[0] for d in data], "fv": [bool(d[1]) for d in data]})
            k += 1
            if how == "late_close" and gen1 is not None and k == close_at:
                gen1.close()        # the abandoned generator is disposed of while the same tokenizer is in the middle of a later stream
                gen1 = None
        ev2.append({"e": "END"})
    except Exception as exc:  # noqa
        ev2.append({"e": "EXC", "cls": type(exc).__name__})
    # fresh reference
    evf = []
    cur2 = {"ev": evf}
    tkf = core.StreamTokenizer(lambda f: f[1], p["min"], p["max"], p["sil"], init_min=p["imin"], init_max_silence=p["isil"], mode=T.mode_of(p))
    peer = [[s, t] for _, s, t in tkf.tokenize(Src(s2, evf))]
    return {"p": p, "mode": "gen", "peer": peer, "ev": ev2, "how": how, "first": s1, "second": s2}


def check(prop, tier, replay=None):
    import_auditok()
    from auditok import core, util, io as aio
    V = Verdict(prop, tier)
    wd = workdir("reuse")
    rng = random.Random(SEED * 1000 + 20)
    V.assumptions += [
        "TLC/SANY/CommunityModules, CPython (generator finalisation order as CPython does it); recorders/projections of harness/tok.py, split.py, energy.py, source.py",
        "leg M is exhaustive within first stream <= 5 frames x second stream <= 6 frames x the parameter grid; legs T sample beyond",
    ]
    grid = ("Max1 = 5 Max2 = 6 MinSet = {1,2,3} MaxSet = {1,2,3} SilSet = {0,1,2} IMinSet = {0,1,2} ISilSet = {0,1}" if tier == "quick" else
            "Max1 = 6 Max2 = 7 MinSet = {1,2,3,4} MaxSet = {1,2,3,4} SilSet = {0,1,2} IMinSet = {0,1,2,3} ISilSet = {0,1,2}")
    cfg = f"CONSTANTS {grid} FixD1 = TRUE FixD2 = TRUE\nSPECIFICATION Spec\nINVARIANT C20\nINVARIANT C20Strong\nCHECK_DEADLOCK FALSE\n"
    res = tlc.run("TokenizerReuse", cfg, wd, name="mc", timeout=3000, mem="12g")
    tlc.require_ok(res, "leg M")
    V.add_model("M", res)
    if res["violated"] or not res["ok"]:
        raise MachineryError(f"leg M: {res['violated']} / {res['error']}\n" + tlc.counterexample(res, 60))
    dead = [a for a in ("Frame1", "Finish1", "Reuse", "Frame2", "Finish2") if res["actions"].get(a, [0, 0])[1] == 0]
    if dead:
        raise MachineryError(f"leg M: actions never taken: {dead}")
    V.cov["exhaustive"] = True

    # ---- (a) tokenizer reuse
    t0 = time.time()
    traces = [reuse_case(core, util, rng, tier) for _ in range(2500 if tier == "quick" else 25000)]
    rows, st = T.judge("obs", traces, wd)
    V.cov["states"] += st
    ok_runs = [i for i, t_ in enumerate(traces) if t_["ev"] and t_["ev"][-1]["e"] == "END"]
    irows, ist = T.judge("impl", [traces[i] for i in ok_runs], wd)
    V.cov["states"] += ist
    acc = {i: r[2] == r[3] for i, r in zip(ok_runs, irows)}
    for i, (tr, row) in enumerate(zip(traces, rows)):
        fl = T.flags_of(row)
        if fl:
            V.violation({"p": tr["p"], "first": tr["first"], "second": tr["second"], "how": tr["how"]},
                        f"tokenizer p={tr['p']} reused after stream {''.join('A' if v else 'a' for v in tr['first'])} ({tr['how']}) on stream "
                        f"{''.join('A' if v else 'a' for v in tr['second'])}: tokens {T.tokens_of(tr)}; a fresh tokenizer gives {tr['peer']} (monitors {sorted(fl)})",
                        {"leg": "T-tokenizer", "trace": T.strip(tr), "how": tr["how"], "first": tr["first"]})
        elif i in acc and not acc[i]:
            V.divergence({"p": tr["p"], "how": tr["how"], "first": tr["first"], "second": tr["second"]})
    V.cov["traces_validated_against_impl"] += len(traces)
    V.count(len(traces), (canon([t_["p"], t_["first"], t_["second"], t_["how"]]) for t_ in traces if t_["peer"]))
    V.leg("T-tokenizer", traces=len(traces), wall_s=round(time.time() - t0, 2), hows={h: sum(1 for t_ in traces if t_["how"] == h) for h in set(t_["how"] for t_ in traces)})
    V.sample({"leg": "T-tokenizer", "p": traces[0]["p"], "how": traces[0]["how"], "first": traces[0]["first"], "second": traces[0]["second"], "tokens": T.tokens_of(traces[0])})

    # ---- (b) repeated split of the same bytes / region / rewound recorder
    from . import split as S
    M = (core, util, aio)
    tmpdir = os.path.join(wd, "audio")
    os.makedirs(tmpdir, exist_ok=True)
    straces = []
    for _ in range(120 if tier == "quick" else 1500):
        case = S.gen_case(rng, True, tier)
        data, _n = S.synth(case["pat"], case["B"], case["tail"], case["sw"], case["ch"])
        durs = S.to_floats(case["units"])
        c = S.cfg_of(case["units"], case["sr"], case["B"], case["flags"])
        kind = rng.choice(["bytes", "region", "recorder"])
        if kind == "recorder" and (case["units"][3] * case["sr"]) % S.U != 0:
            kind = "bytes"
        first = None
        if kind == "region":
            obj = core.AudioRegion(data, case["sr"], case["sw"], case["ch"])
        elif kind == "recorder":
            obj = util.AudioReader(data, block_dur=durs["analysis_window"], record=True, sampling_rate=case["sr"], sample_width=case["sw"], channels=case["ch"])
        for rep in range(3):
            rec = S.Recorder(core, util, aio, case["sw"], case["ch"])
            ev = rec.ev
            try:
                if kind == "bytes":
                    gen = core.split(data, durs["min_dur"], durs["max_dur"], durs["max_silence"], case["flags"][0], case["flags"][1],
                                     analysis_window=durs["analysis_window"], validator=rec.custom_validator(), sr=case["sr"], sw=case["sw"], ch=case["ch"])
                elif kind == "region":
                    gen = obj.split(durs["min_dur"], durs["max_dur"], durs["max_silence"], case["flags"][0], case["flags"][1],
                                    analysis_window=durs["analysis_window"], validator=rec.custom_validator())
                else:
                    if rep > 0:
                        obj.rewind()
                    gen = core.split(obj, durs["min_dur"], durs["max_dur"], durs["max_silence"], case["flags"][0], case["flags"][1], validator=rec.custom_validator())
                bps = case["sw"] * case["ch"]
                for r in gen:
                    fi = round(r.start * case["sr"])
                    ok = bytes(r) == data[fi * bps:(fi + len(r)) * bps]
                    ev.append({"e": "REG", "first": fi, "len": len(r), "ok": bool(ok), "tok": True})
                ev.append({"e": "END"})
            except Exception as exc:  # noqa
                ev.append({"e": "ERR", "cls": type(exc).__name__})
            if rep == 0:
                first = S.regs_of(ev)
            straces.append({"c": c, "ev": ev, "peer": first, "usepeer": True, "info": f"{kind} split #{rep + 1}"})
    # ---- (b2) several splits alive at the same time (default validator, identical parameters), consumed interleaved: each must be what
    # it is on its own.  The windows' verdicts come from a fresh validator per window (C07 decides the validator itself).
    for _ in range(80 if tier == "quick" else 1200):
        case = S.gen_case(rng, True, tier)
        if len(case["pat"]) < 2:
            continue
        durs = S.to_floats(case["units"])
        c = S.cfg_of(case["units"], case["sr"], case["B"], case["flags"])
        bps = case["sw"] * case["ch"]
        pats = [case["pat"], [not v for v in case["pat"]] if rng.random() < .5 else rng.sample(case["pat"], len(case["pat"]))]
        if rng.random() < .3:
            pats.append(list(reversed(case["pat"])))
        datas = [S.synth(pt, case["B"], case["tail"], case["sw"], case["ch"])[0] for pt in pats]
        kw = dict(min_dur=durs["min_dur"], max_dur=durs["max_dur"], max_silence=durs["max_silence"], drop_trailing_silence=case["flags"][0],
                  strict_min_dur=case["flags"][1], analysis_window=durs["analysis_window"], energy_threshold=S.ETH)
        how = rng.choice(["zip", "suspend", "nested"])
        got = [[] for _ in datas]
        errs = [None for _ in datas]
        try:
            if rng.random() < .5:
                gens = [core.split(d_, sampling_rate=case["sr"], sample_width=case["sw"], channels=case["ch"], **kw) for d_ in datas]
            else:
                gens = [core.AudioRegion(d_, case["sr"], case["sw"], case["ch"]).split(**kw) for d_ in datas]
            if how == "zip":
                live = list(range(len(gens)))
                while live:
                    for k in list(live):
                        try:
                            got[k].append(next(gens[k]))
                        except StopIteration:
                            live.remove(k)
            elif how == "suspend":
                try:
                    got[0].append(next(gens[0]))
                except StopIteration:
                    pass
                for k in range(1, len(gens)):
                    got[k] += list(gens[k])
                got[0] += list(gens[0])
            else:
                for r0 in gens[0]:
                    got[0].append(r0)
                    if len(got[0]) == 1:
                        for k in range(1, len(gens)):
                            got[k] += list(gens[k])
                for k in range(1, len(gens)):
                    got[k] += list(gens[k])
        except Exception as exc:  # noqa
            errs = [type(exc).__name__ for _ in datas]
        for k, (d_, pt) in enumerate(zip(datas, pats)):
            ev = []
            nwin = len(pt)
            for j in range(nwin):
                size = case["B"] if j < nwin - 1 else case["tail"]
                win = d_[j * case["B"] * bps:(j * case["B"] + size) * bps]
                ev.append({"e": "W", "v": bool(util.AudioEnergyValidator(S.ETH, case["sw"], case["ch"]).is_valid(win)), "n": size})
            if errs[k]:
                ev.append({"e": "ERR", "cls": errs[k]})
            else:
                for r in got[k]:
                    fi = round(r.start * case["sr"])
                    ev.append({"e": "REG", "first": fi, "len": len(r), "ok": bool(bytes(r) == d_[fi * bps:(fi + len(r)) * bps]), "tok": True})
                ev.append({"e": "END"})
            straces.append({"c": c, "ev": ev, "peer": [], "usepeer": False, "info": f"split #{k + 1} of {len(datas)} alive at once ({how})"})
    srows, sst = S.judge_split(straces, wd, tag="rs")
    V.cov["states"] += sst
    for tr, row in zip(straces, srows):
        if row[2] != row[3] or row[7] or (not tr["usepeer"] and (row[4] or row[5])):
            V.violation({"c": tr["c"], "info": tr["info"], "windows": [e["v"] for e in tr["ev"] if e["e"] == "W"]},
                        S.describe(tr) + (f": differs from the first split of the same object {tr['peer']}" if tr["usepeer"] else ": not the regions of this audio on its own"),
                        {"leg": "T-split", "trace": tr})
    V.cov["traces_validated_against_impl"] += len(straces)
    V.count(len(straces), (canon([t_["c"], t_["info"], [e.get("v") for e in t_["ev"] if e["e"] == "W"]]) for t_ in straces if S.regs_of(t_["ev"])))
    V.leg("T-split", traces=len(straces))

    # ---- (c) one validator, shuffled windows
    from . import energy as E
    ecases = []
    for _ in range(60 if tier == "quick" else 600):
        sw = rng.choice([1, 2, 4])
        C = rng.choice([1, 2, 3])
        k = rng.choice([-20, 0, 1, 2, 3])
        sel = rng.choice([("name", None), ("name", "mix"), ("idx", 0), ("idx", -1)])
        try:
            v = util.AudioEnergyValidator(10 * k, sw, C, use_channel=sel[1])
        except Exception:
            continue
        wins = []
        for _ in range(12):
            n = rng.randint(1, 5)
            amp = rng.choice([0, 1, 12, 100])
            wins.append([rng.randint(-amp, amp) for _ in range(n * C)])
        order = wins + wins[::-1] + rng.sample(wins, len(wins))
        inplace = rng.random() < .5
        buf = bytearray()
        for vals in order:
            mv, bnd = E.mirror_verdict(vals, C, sel, 2 * k)
            if bnd and not E.boundary_usable(2 * k, C, sel, bnd == 1):
                continue
            data = E.enc(vals, sw)
            if inplace:
                # a capture loop that refills one pre-allocated buffer (readinto): the same object, new content
                buf[:] = data
                got = "T" if v.is_valid(buf) else "F"
            else:
                got = "T" if v.is_valid(data) else "F"
            ecases.append({"b": list(data), "sw": sw, "c": C, "selk": sel[0], "name": ("none" if sel[1] is None else sel[1]) if sel[0] == "name" else "",
                           "idx": sel[1] if sel[0] == "idx" else 0, "k": k, "got": got, "vals": vals})
    tcfg = "SPECIFICATION Spec\nCONSTRAINT Mon\nPOSTCONDITION Post\nCHECK_DEADLOCK FALSE\n"
    erows, est = judge("EnergyTrace", tcfg, ecases, wd, "ev", weight=lambda x: 1, strip=lambda x: {k_: x[k_] for k_ in ("b", "sw", "c", "selk", "name", "idx", "k", "got")})
    V.cov["states"] += est
    for cse, row in zip(ecases, erows):
        if row[2] != 1:
            V.violation({"vals": cse["vals"], "sw": cse["sw"], "c": cse["c"], "k": cse["k"], "sel": [cse["selk"], cse["name"], cse["idx"]]},
                        f"reused AudioEnergyValidator({10 * cse['k']} dB, sw={cse['sw']}, ch={cse['c']}) judged samples {cse['vals']} as {cse['got']} after other windows; Energy.tla says otherwise",
                        {"leg": "T-validator", "case": cse})
    V.cov["traces_validated_against_impl"] += len(ecases)
    V.count(len(ecases), (canon([c_["vals"], c_["sw"], c_["c"], c_["k"]]) for c_ in ecases if any(c_["vals"])))
    V.leg("T-validator", cases=len(ecases))

    # ---- (d) buffer source close / reopen
    from . import source as SRC
    from .audio import make_audio
    btr = []
    for _ in range(150 if tier == "quick" else 1500):
        sw, ch = rng.choice(SRC.FORMATS)
        n = rng.randint(0, 30)
        sr = rng.choice([8, 10, 16000])
        src = aio.BufferAudioSource(make_audio(n, sw, ch), sr, sw, ch)
        ev = []
        for _ in range(rng.randint(4, 25)):
            op, arg = rng.choice([("open", 0), ("close", 0), ("read", rng.randint(1, n + 2)), ("read", rng.randint(1, 3)), ("getpos", 0), ("setpos", rng.randint(0, n))])
            ev.append(SRC.call(src, op, arg, sw, ch))
        btr.append({"kind": "buffer", "n": n, "sr": sr, "ev": ev, "fmt": [sw, ch]})
    bcfg = 'CONSTANTS MaxN = 0 RateSet = {} KindSet = {}\nSPECIFICATION TSpec\nCONSTRAINT Mon\nPOSTCONDITION Post\nCHECK_DEADLOCK FALSE\n'
    brows, bst = judge("SourceTrace", bcfg, btr, wd, "bs", strip=lambda x: {k_: x[k_] for k_ in ("kind", "n", "sr", "ev")})
    V.cov["states"] += bst
    for tr, row in zip(btr, brows):
        if row[2] != row[3] or row[4]:
            i = row[2] - 1
            V.violation({"n": tr["n"], "ops": [[x["op"], x["arg"]] for x in tr["ev"][:i + 1]]},
                        f"buffer source n={tr['n']}: call #{i} {tr['ev'][i] if i < len(tr['ev']) else None} after {[(x['op'], x['arg']) for x in tr['ev'][max(0, i - 5):i]]} "
                        f"is not what a source restarted by close()/open() does", {"leg": "T-source", "trace": tr})
    V.cov["traces_validated_against_impl"] += len(btr)
    V.count(len(btr), (canon([t_["n"], [[e["op"], e["arg"]] for e in t_["ev"]]]) for t_ in btr if t_["n"]))
    V.leg("T-source", traces=len(btr))
    shutil.rmtree(tmpdir, ignore_errors=True)
    return V.finish(
        rule="leg M: self-composition over all first streams (complete / abandoned at any suspension point) x second streams x parameter grid; "
             "leg T: real objects reused (tokenizer after complete / dropped / kept / late-closed generators, list and callback runs; repeated split of "
             "bytes, region, rewound recorder; one validator on shuffled windows; buffer source close/reopen), each later use judged by TLC as a fresh "
             "use. distinct = canonical (parameters, first use, second use); non-trivial = the later use yields a token / region / verdict")
