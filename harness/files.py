"""C18: audio survives save/load unchanged; load(skip, max_read) equals slicing; numpy export.

leg M : TLC on FilesMC: file system of <= 2 names, every history of saves (wav/raw, exists_ok on/off) and
        loads (skip / max_read on a half-sample grid incl. None) up to the bound; invariants RoundTrip,
        NoOverwrite, SliceOK.  Histories of length 2 are exported.
leg R : every exported history is executed in a temporary directory with real files (region.save / to_file,
        load / AudioRegion.load, eager and lazy) and every result compared.
leg T : seeded long histories (several formats, placeholder templates, str and Path names, exists_ok,
        eager/lazy, decimal skip / max_read, numpy export) recorded and judged by TLC on FilesTrace.
"""
import os
import random
import shutil
import time
import wave
from fractions import Fraction
from pathlib import Path

from . import tlc
from .audio import make_audio, max_ids
from .common import SEED, MachineryError, Verdict, canon, import_auditok, workdir
from .judge import judge
from .region import project, par_of

NONE = -9999
FORMATS = [(1, 1), (2, 1), (2, 2), (4, 1), (1, 3), (4, 2), (4, 3)]


def file_state(path, sw, ch):
    """(ids, header params) of a file on disk: wav if it parses as wav, else raw bytes."""
    with open(path, "rb") as f:
        raw = f.read()
    if raw[:4] == b"RIFF":
        try:
            with wave.open(path) as w:
                hdr = [w.getframerate(), w.getsampwidth(), w.getnchannels()]
                data = w.readframes(-1)
            return data, hdr
        except Exception:
            pass
    return raw, [0, 0, 0]


def ids_of(data, sw, ch):
    class R:
        pass
    bps = sw * ch
    if len(data) % bps:
        return [-1]
    from .audio import sample_bytes
    k = min(bps, 3)
    out = []
    for o in range(0, len(data), bps):
        s = data[o:o + bps]
        i = int.from_bytes(s[:k], "little")
        out.append(i if sample_bytes(i, sw, ch) == s else (0 if not any(s) else -1))
    return out


def replay_history(core, aio, h, tmpdir, variant):
    """Execute one exported history; returns list of mismatches."""
    sw, ch = FORMATS[variant % len(FORMATS)]
    sr = 8
    n = h["n"]
    d = os.path.join(tmpdir, f"h{variant}")
    os.makedirs(d, exist_ok=True)
    regs = [core.AudioRegion(make_audio(n, sw, ch), sr, sw, ch)]
    bad = []
    for i, e in enumerate(h["log"]):
        path = os.path.join(d, e["nm"] + ".dat")
        try:
            if e["op"] == "save":
                r = regs[e["r"] - 1]
                try:
                    if (variant + i) % 2:
                        if not e["eok"] and os.path.exists(path):
                            raise FileExistsError     # to_file has no exists_ok: the refusal is save()'s job
                        aio.to_file(bytes(r), path, e["fmt"], sr=sr, sw=sw, ch=ch)
                    else:
                        r.save(path if (variant + i) % 3 else Path(path), e["fmt"], exists_ok=e["eok"])
                    k = "ok"
                except FileExistsError:
                    k = "FileExistsError"
                if k != e["k"]:
                    bad.append((i, e, k))
                    continue
                if k == "ok":
                    data, hdr = file_state(path, sw, ch)
                    if ids_of(data, sw, ch) != list(e["ids"]) or (e["fmt"] == "wav" and hdr != [sr, sw, ch]) or (e["fmt"] == "raw" and hdr != [0, 0, 0]):
                        bad.append((i, e, ("file", ids_of(data, sw, ch), hdr)))
            else:
                skip = e["s2"] / 16
                mr = None if e["m2"] == NONE else e["m2"] / 16
                kw = {"audio_format": e["fmt"]}
                if e["fmt"] == "raw":
                    kw.update(sr=sr, sw=sw, ch=ch)
                if (variant + i) % 2:
                    kw["large_file"] = True
                try:
                    loader = core.load if (variant + i) % 3 else core.AudioRegion.load
                    got = loader(path, skip=skip, max_read=mr, **kw)
                    regs.append(got)
                    if project(got, sw, ch) != list(e["ids"]) or par_of(got) != [sr, sw, ch]:
                        bad.append((i, e, (project(got, sw, ch), par_of(got))))
                except Exception as exc:  # noqa
                    bad.append((i, e, type(exc).__name__))
                    regs.append(core.AudioRegion(b"", sr, sw, ch))
        except Exception as exc:  # noqa
            bad.append((i, e, "harness:" + type(exc).__name__ + str(exc)[:80]))
    shutil.rmtree(d, ignore_errors=True)
    return bad


def frac3(x):
    f = Fraction(str(x))
    return f.numerator, f.denominator


def safe_round3(x, sr):
    p = Fraction(str(x)) * sr
    fl = p.numerator // p.denominator
    return abs((p - fl) - Fraction(1, 2)) >= Fraction(1, 20)


def gen_trace(core, aio, rng, tier, tmpdir, idx):
    from auditok import signal
    sw, ch = rng.choice(FORMATS)
    sr = rng.choice([8, 10, 100, 1000, 8000, 16000, 44100])
    d = os.path.join(tmpdir, f"t{idx}")
    os.makedirs(d, exist_ok=True)
    cap = max_ids(sw, ch)
    pool = []
    regs = []
    base = 1
    for j in range(rng.randint(1, 3)):
        n = rng.choice([0, 1, 2, rng.randint(0, 12), rng.randint(0, 40 if tier == "quick" else 400)])
        n = max(0, min(n, cap - base - 1))
        start = rng.choice([None, 0.0, round(rng.random() * 20, 3), rng.randint(0, 9) / 10])
        r = core.AudioRegion(make_audio(n, sw, ch, first=base), sr, sw, ch, start)
        base += n
        regs.append(r)
    pool = [{"ids": project(r, sw, ch), "par": par_of(r)} for r in regs]
    ev = []
    names = ["a", "b", "c"]
    tpls = ["{nm}", "{nm}_{start}", "{nm}_{start:.3f}_{end:.3f}", "{nm}_{duration}", "{nm}_{duration:.3f}_{end}"]
    for _ in range(rng.randint(3, 14)):
        op = rng.choice(["save", "save", "load", "load", "load", "numpy", "plant"])
        e = {"op": op, "k": "ok"}
        try:
            if op == "plant":
                from .audio import write_noncanonical_wav
                n = rng.choice([0, 1, rng.randint(0, 12), rng.randint(0, 40)])
                n = max(0, min(n, cap - base - 1))
                data = make_audio(n, sw, ch, first=base)
                base += n
                nm = rng.choice(names) + rng.choice([".wav", ".dat"])
                write_noncanonical_wav(os.path.join(d, nm), data, sr, sw, ch)
                e.update(nm=nm, fmt="wav", file=ids_of(data, sw, ch), hdr=[sr, sw, ch])
            elif op == "save":
                i = rng.randrange(len(regs))
                r = regs[i]
                fmt = rng.choice(["wav", "raw"])
                by_ext = rng.random() < .5
                tpl = rng.choice(tpls).replace("{nm}", rng.choice(names))
                if r.start is None and ("{start" in tpl or "{end" in tpl) and ":." in tpl:
                    tpl = tpl.split("_")[0]
                fname = tpl + ("." + fmt if by_ext else ".dat")
                eok = rng.random() < .6
                via_path = rng.random() < .2 and "{" not in fname
                target = os.path.join(d, fname)
                exp = os.path.join(d, fname.format(start=r.start, end=r.end, duration=r.duration)) if not via_path else target
                try:
                    ret = r.save(Path(target) if via_path else target, None if by_ext else fmt, exists_ok=eok)
                    e["k"] = "ok"
                except FileExistsError:
                    ret = exp
                    e["k"] = "FileExistsError"
                ret = str(ret)
                data, hdr = file_state(exp, sw, ch) if os.path.exists(exp) else (b"", [0, 0, 0])
                others = [f for f in os.listdir(d)]
                e.update(r=i + 1, nm=os.path.basename(ret), expnm=os.path.basename(exp), fmt=fmt, eok=eok, file=ids_of(data, sw, ch), hdr=hdr)
            elif op == "load":
                files = sorted(os.listdir(d))
                if not files:
                    continue
                f = rng.choice(files)
                path = os.path.join(d, f)
                data, hdr = file_state(path, sw, ch)
                isw = hdr != [0, 0, 0]
                nfile = len(data) // (sw * ch)
                for _ in range(30):
                    skip = rng.choice([0, 0, round(rng.randint(0, nfile + 2) / sr, 6), round(rng.random() * (nfile + 1) / sr, 3)])
                    mr = rng.choice([None, None, 0, round(rng.randint(0, nfile + 2) / sr, 6), round(rng.random() * (nfile + 1) / sr, 3), -1])
                    if safe_round3(skip, sr) and (mr is None or mr < 0 or safe_round3(mr, sr)):
                        break
                else:
                    skip, mr = 0, None
                kw = {}
                if not (f.endswith(".wav") or f.endswith(".raw")):
                    kw["audio_format"] = "wav" if isw else "raw"
                if not isw:
                    kw.update(sampling_rate=sr, sample_width=sw, channels=ch)
                lazy = rng.random() < .5
                if lazy:
                    kw["large_file"] = True
                sn, sd = frac3(skip)
                if mr is None or mr < 0:
                    mn, md = NONE, 1
                else:
                    mn, md = frac3(mr)
                e.update(nm=f, sn=sn, sd=sd, mn=mn, md=md, lazy=lazy)
                loader = rng.choice([core.load, core.AudioRegion.load])
                got = loader(path if rng.random() < .8 else Path(path), skip=skip, max_read=mr, **kw)
                regs.append(got)
                e.update(ret=project(got, sw, ch) if (got.sample_width, got.channels) == (sw, ch) else [-1], par=par_of(got))
            else:
                c = [r for r in regs if len(r) <= 6 and sw * ch <= 8]
                if not c:
                    continue
                r = rng.choice(c)
                arr = r.numpy()
                import numpy as np
                if rng.random() < .6:
                    # a caller may do anything with an array it was given; a later export must still be the region's samples
                    try:
                        arr /= 2
                        arr[...] = -1
                    except Exception:
                        pass
                    arr = r.numpy() if rng.random() < .5 else np.asarray(r)
                a2 = np.asarray(r)
                ok_shape = arr.shape == (ch, len(r)) and a2.shape == arr.shape
                vals = [[int(v) for v in row] for row in arr] if ok_shape else []
                if ok_shape and any(float(v) != int(v) for row in arr for v in row):
                    vals = []
                if sw == 4 and any(abs(v) >= 2 ** 31 for row in vals for v in row):
                    continue
                e.update(b=list(bytes(r)), sw=sw, c=ch, arr=vals if len(r) else [[] for _ in range(ch)])
        except Exception as exc:  # noqa
            e["k"] = type(exc).__name__
        for f_, dv in (("r", 1), ("nm", ""), ("expnm", ""), ("fmt", ""), ("eok", True), ("file", []), ("hdr", [0, 0, 0]), ("sn", 0), ("sd", 1), ("mn", NONE),
                       ("md", 1), ("lazy", False), ("ret", []), ("par", [sr, sw, ch]), ("b", []), ("sw", sw), ("c", ch), ("arr", []), ("big", 0), ("first", 0), ("len", 0), ("match", True)):
            e.setdefault(f_, dv)
        ev.append(e)
    shutil.rmtree(d, ignore_errors=True)
    return {"pool": pool, "ev": ev, "fmt": [sr, sw, ch]}


def big_trace(core, rng, tmpdir, idx):
    """A planted multi-megabyte file, loaded with skip / max_read beyond 2^20 samples (eager and lazy): size thresholds of internal
    buffers are out of reach of small files whatever the call sequence."""
    import numpy as np
    import wave
    sw, ch, sr = 2, rng.choice([1, 2, 2, 3]), 16000
    n = (1 << 21) + rng.randint(1000, 90000)
    data = ((np.arange(n * ch, dtype=np.int64) * 7919 + idx) % 65521 - 30000).astype("<i2").tobytes()
    bps = sw * ch
    fmt = rng.choice(["wav", "raw"])
    path = os.path.join(tmpdir, f"big{idx}." + fmt)
    if fmt == "raw":
        with open(path, "wb") as f:
            f.write(data)
        kw = dict(sampling_rate=sr, sample_width=sw, channels=ch)
    else:
        with wave.open(path, "wb") as w:
            w.setframerate(sr); w.setsampwidth(sw); w.setnchannels(ch); w.writeframes(data)
        kw = {}
    ev = []
    dflt = (("r", 1), ("nm", ""), ("expnm", ""), ("fmt", ""), ("eok", True), ("file", []), ("hdr", [0, 0, 0]), ("lazy", False), ("ret", []), ("b", []),
            ("sw", sw), ("c", ch), ("arr", []))
    for (skip, mr, lazy) in ((round(66 + rng.randint(0, 6000) / 100, 2), rng.choice([None, round(rng.randint(1, 900) / 100, 2)]), True),
                             (round(rng.randint(0, 300) / 100, 2), round(66 + rng.randint(0, 6000) / 100, 2), True),
                             (round(66 + rng.randint(0, 6000) / 100, 2), round(rng.randint(1, 900) / 100, 2), False)):
        e = {"op": "bigload", "k": "ok", "big": n, "par": [sr, sw, ch]}
        e["sn"], e["sd"] = frac3(skip)
        e["mn"], e["md"] = (NONE, 1) if mr is None else frac3(mr)
        try:
            got = core.load(path, skip=skip, max_read=mr, large_file=lazy, **kw)
            b = bytes(got)
            m = len(b) // bps
            lo0 = int(round(skip * sr))
            cands = [c for c in (lo0 - 1, lo0, lo0 + 1) if 0 <= c <= n and data[c * bps:c * bps + len(b)] == b] if len(b) % bps == 0 else []
            e.update(first=(cands[0] if cands else min(lo0, n)) + 1, len=m, match=bool(cands) and [got.sampling_rate, got.sample_width, got.channels] == [sr, sw, ch])
        except Exception as exc:  # noqa
            e.update(k=type(exc).__name__, first=0, len=0, match=False)
        for f_, dv in dflt:
            e.setdefault(f_, dv)
        e["lazy"] = lazy
        ev.append(e)
    os.remove(path)
    return {"pool": [], "ev": ev, "fmt": [sr, sw, ch]}


def check(prop, tier, replay=None):
    import_auditok()
    from auditok import core, io as aio
    V = Verdict(prop, tier)
    wd = workdir("files")
    tmpdir = os.path.join(wd, "fs")
    os.makedirs(tmpdir, exist_ok=True)
    rng = random.Random(SEED * 1000 + 18)
    V.assumptions += [
        "TLC/SANY/CommunityModules, CPython, wave module, the local file system; file contents are read back byte-for-byte and projected to sample ids",
        "skip / max_read are generated at least 1/20 sample away from a rounding switch point (or exactly on the half-sample grid at dyadic rates in leg R)",
        "the expected file name is rendered by the harness from the region's start/end/duration with str.format (the statement's 'filled from the region')",
    ]
    n = 3 if tier == "quick" else 4
    cfg = f'CONSTANTS MaxN = {n} Names = {{"a", "b"}} MaxOps = 3\nSPECIFICATION Spec\nINVARIANT C18\nCHECK_DEADLOCK TRUE\n'
    res = tlc.run("FilesMC", cfg, wd, name="mc", timeout=3000, mem="12g")
    tlc.require_ok(res, "leg M")
    V.add_model("M", res)
    if res["violated"] or not res["ok"]:
        raise MachineryError(f"leg M: {res['violated']} / {res['error']}\n" + tlc.counterexample(res, 40))
    V.cov["exhaustive"] = True
    cfg2 = f'CONSTANTS MaxN = {n} Names = {{"a", "b"}} MaxOps = 2\nSPECIFICATION Spec\nINVARIANT C18\nCONSTRAINT Export\nCHECK_DEADLOCK TRUE\n'
    res2 = tlc.run("FilesMC", cfg2, wd, name="mc2", timeout=3000, mem="8g")
    tlc.require_ok(res2, "leg M export")
    V.add_model("M:export", res2)
    hs = {}
    for j in res2["json"]:
        hs.setdefault(canon(j), j)
    hs = list(hs.values())
    t0 = time.time()
    nbad = 0
    for i, h in enumerate(hs):
        for (k, e, got) in replay_history(core, aio, h, tmpdir, i):
            nbad += 1
            V.violation({"n": h["n"], "ops": [[x["op"], x["nm"], x["fmt"], x["eok"], x["s2"], x["m2"]] for x in h["log"][:k + 1]]},
                        f"history on a {h['n']}-sample region: operation #{k} {e['op']}(name={e['nm']}, fmt={e['fmt']}, exists_ok={e['eok']}, "
                        f"skip={e['s2']}/2 samples, max_read={'None' if e['m2'] == NONE else str(e['m2']) + '/2 samples'}) gave {got}; "
                        f"specification: {e['k']} {list(e['ids'])}", {"leg": "R", "history": h, "op": k, "got": str(got)})
    V.cov["traces_validated_against_impl"] += len(hs)
    V.count(len(hs), (canon(h) for h in hs if h["n"] > 0))
    V.leg("R", histories=len(hs), mismatches=nbad, wall_s=round(time.time() - t0, 2))
    V.sample({"leg": "R", "history": hs[len(hs) // 2]})
    t0 = time.time()
    traces = [gen_trace(core, aio, rng, tier, tmpdir, i) for i in range(400 if tier == "quick" else 25000)]
    traces += [big_trace(core, rng, tmpdir, i) for i in range(2 if tier == "quick" else 12)]
    tcfg = "SPECIFICATION TSpec\nCONSTRAINT Mon\nPOSTCONDITION Post\nCHECK_DEADLOCK FALSE\n"
    rows, st = judge("FilesTrace", tcfg, traces, wd, "ft", strip=lambda x: {"pool": x["pool"], "ev": x["ev"]},
                     weight=lambda x: sum(len(e["ret"]) + len(e["file"]) + 5 for e in x["ev"]))
    V.cov["states"] += st
    for tr, row in zip(traces, rows):
        if row[2] == row[3]:
            continue
        i = row[2] - 1
        e = tr["ev"][i]
        short = {k: v for k, v in e.items() if k in ("op", "k", "r", "nm", "expnm", "fmt", "eok", "sn", "sd", "mn", "md", "lazy", "hdr", "par")}
        V.violation({"fmt": tr["fmt"], "pool": [len(p["ids"]) for p in tr["pool"]], "ops": [[x["op"], x["nm"], x["fmt"], x["eok"], x["sn"], x["sd"], x["mn"], x["md"]] for x in tr["ev"][:i + 1]]},
                    f"fmt={tr['fmt']} pool={[len(p['ids']) for p in tr['pool']]}: operation #{i} {short} returned/left "
                    f"{str(e['ret'] if e['op'] == 'load' else e['file'] if e['op'] == 'save' else e['arr'])[:160]}: not what Files prescribes",
                    {"leg": "T", "trace": tr, "event": i})
    V.cov["traces_validated_against_impl"] += len(traces)
    V.count(len(traces), (canon([t_["pool"], [[e["op"], e["nm"], e["sn"], e["mn"]] for e in t_["ev"]]]) for t_ in traces if any(e["op"] == "load" for e in t_["ev"])))
    V.leg("T", traces=len(traces), events=sum(len(t_["ev"]) for t_ in traces), wall_s=round(time.time() - t0, 2))
    V.sample({"leg": "T", "fmt": traces[0]["fmt"], "ops": [{k: v for k, v in e.items() if k in ("op", "k", "nm", "fmt", "eok", "sn", "sd", "mn", "md", "lazy")} for e in traces[0]["ev"][:8]]})
    shutil.rmtree(tmpdir, ignore_errors=True)
    return V.finish(
        rule="leg M: every history of saves/loads of the bound (2 names, wav/raw, exists_ok, skip/max_read on a half-sample grid); leg R: every "
             "exported 2-step history executed with real files (7 sample formats, save/to_file, load/AudioRegion.load, eager/lazy rotate); leg T: "
             "seeded histories with templates, Path names, decimal skip/max_read, numpy export, judged by TLC. distinct = canonical history; "
             "non-trivial = involves a non-empty region / a load")
