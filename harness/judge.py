"""TLC as batched trace judge: shards a list of trace records over several single-worker JVMs.
Every trace specification prints one JSON row ["TRACE", index, reached, total, flag...] per trace."""
import json
import os
from concurrent.futures import ThreadPoolExecutor

from . import tlc
from .common import MachineryError, NCPU


def _shard(args):
    module, cfg, traces, wd, tag, idx, strip = args
    tf = os.path.join(wd, f"{tag}_{idx}.json")
    with open(tf, "w") as f:
        json.dump([strip(t) if strip else t for t in traces], f, separators=(",", ":"))
    res = tlc.run(module, cfg, wd, name=f"{tag}_{idx}", workers=1, coverage=False, env={"TRACE_FILE": tf},
                  timeout=3000, mem="3g")
    rows = {}
    for j in res["json"]:
        if isinstance(j, list) and j and j[0] == "TRACE":
            rows[j[1]] = j
    if len(rows) != len(traces):
        tail = ""
        try:
            tail = "".join(open(res["out"], errors="replace").readlines()[-15:])
        except Exception:
            pass
        raise MachineryError(f"trace judge {module}#{idx}: {len(rows)} verdicts for {len(traces)} traces; "
                             f"error={res['error']}\n{tail}")
    return [rows[i + 1] for i in range(len(traces))], res["distinct"]


def judge(module, cfg, traces, wd, tag, shards=None, weight=None, strip=None):
    """Returns (rows, states): rows[i] is TLC's verdict row for traces[i]."""
    if not traces:
        return [], 0
    weight = weight or (lambda t: len(t["ev"]))
    shards = max(1, min(shards or min(8, NCPU // 2), len(traces) // 10 or 1))
    order = sorted(range(len(traces)), key=lambda i: -weight(traces[i]))
    buckets = [[] for _ in range(shards)]
    loads = [0] * shards
    for i in order:
        b = loads.index(min(loads))
        buckets[b].append(i)
        loads[b] += weight(traces[i]) + 1
    jobs = [(module, cfg, [traces[i] for i in b], wd, tag, n, strip) for n, b in enumerate(buckets) if b]
    rows = [None] * len(traces)
    states = 0
    with ThreadPoolExecutor(max_workers=len(jobs)) as ex:
        for job, (rws, st) in zip(jobs, ex.map(_shard, jobs)):
            for i, rw in zip(buckets[job[5]], rws):
                rows[i] = rw
            states += st
    return rows, states
