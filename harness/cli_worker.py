"""Runs auditok.cmdline.main(argv) jobs in a process of its own (main() polls threading.enumerate() == 1, so the
process must have no other threads).  usage: python -m harness.cli_worker <jobs.json> <results.json>"""
import contextlib
import io
import json
import os
import sys
import time as _time
import types


def main():
    jobs = json.load(open(sys.argv[1]))
    repo = os.environ.get("AUDITOK_REPO", "/repo")
    sys.path.insert(0, repo)
    import auditok.cmdline as C
    shim = types.ModuleType("time_shim")
    for n_ in dir(_time):
        if not n_.startswith("__"):
            setattr(shim, n_, getattr(_time, n_))
    shim.sleep = lambda s: _time.sleep(0.002)       # the 1 s poll of main(), shortened
    C.time = shim
    import gc
    import hashlib
    import logging
    import wave
    import auditok.workers as W
    import auditok.plotting as P
    out = []
    real_plot = P.plot
    real_os = getattr(W, "os", None)
    for job in jobs:
        res = {"id": job["id"], "exit": None, "raised": None, "stdout": "", "stderr": ""}
        fx = {"commands": [], "played": [], "plots": []}
        if job.get("fx"):
            # side-effect options: os.system as seen by auditok.workers is recorded (the temporary wav is read and removed), a fake pyaudio
            # device collects what is played, plot() is recorded instead of drawn
            class OsShim:
                def __getattr__(self_, name):
                    return getattr(os, name)

                def system(self_, cmd):
                    f = cmd.split(" ", 1)[1] if " " in cmd else ""
                    rec = {"cmd": cmd.split(" ")[0], "exists": os.path.exists(f), "sha": None, "par": None}
                    try:
                        with wave.open(f) as wf:
                            rec["sha"] = hashlib.sha1(wf.readframes(-1)).hexdigest()
                            rec["par"] = [wf.getframerate(), wf.getsampwidth(), wf.getnchannels()]
                    except Exception:  # noqa
                        pass
                    try:
                        os.remove(f)
                    except OSError:
                        pass
                    fx["commands"].append(rec)
                    return 0
            if hasattr(W, "os"):
                W.os = OsShim()          # os.system() is recorded in-process; any other way of starting the command reaches harness/bin/consume
            consume_dir = os.path.join(job["cwd"], "consumed")
            os.makedirs(consume_dir, exist_ok=True)
            open(os.path.join(consume_dir, "log"), "w").close()
            os.environ["VERIF_CONSUME_DIR"] = consume_dir
            bindir = os.path.join(os.path.dirname(os.path.abspath(__file__)), "bin")
            if bindir not in os.environ.get("PATH", "").split(":"):
                os.environ["PATH"] = bindir + ":" + os.environ.get("PATH", "")
            mod = types.ModuleType("pyaudio")

            class FakeStream:
                def __init__(s_, kw):
                    s_.kw = kw

                def write(s_, chunk):
                    fx["played"].append(bytes(chunk).hex())

                def is_stopped(s_):
                    return False

                def is_active(s_):
                    return True

                def start_stream(s_):
                    pass

                def stop_stream(s_):
                    pass

                def close(s_):
                    pass

            mic_bytes = open(job["mic"], "rb").read() if job.get("mic") else b""

            class FakeIn:
                def __init__(s_, bps):
                    s_.bps, s_.pos, s_.closed = max(1, bps), 0, False

                def is_active(s_):
                    return not s_.closed and s_.pos < len(mic_bytes)

                def is_stopped(s_):
                    return False

                def start_stream(s_):
                    pass

                def stop_stream(s_):
                    pass

                def close(s_):
                    s_.closed = True

                def read(s_, n, **kw_):
                    d_ = mic_bytes[s_.pos:s_.pos + n * s_.bps]
                    s_.pos += len(d_)
                    return d_

            class PyAudio:
                def get_format_from_width(s_, w):
                    return {1: 16, 2: 8, 4: 2}.get(w, 0)

                def open(s_, **kw):
                    if kw.get("input"):
                        # the microphone: a finite device that stays active while samples remain
                        width = {16: 1, 8: 2, 2: 4}.get(kw.get("format"), 0)
                        idx_ = kw.get("input_device_index")
                        fx.setdefault("mic_opens", []).append([kw.get("rate"), kw.get("channels"), width, -1 if idx_ is None else idx_, kw.get("frames_per_buffer")])
                        return FakeIn(kw.get("channels", 1) * width)
                    fx["player_params"] = [kw.get("rate"), kw.get("channels"), kw.get("format")]
                    return FakeStream(kw)

                def terminate(s_):
                    pass
            mod.PyAudio = PyAudio
            mod.paInt16, mod.paInt8, mod.paInt32 = 8, 16, 2
            sys.modules["pyaudio"] = mod

            def fake_plot(record, detections=None, energy_threshold=None, show=None, save_as=None, **kw):
                b = bytes(record)
                fx["plots"].append({"sha": hashlib.sha1(b).hexdigest(), "n": len(b), "par": [record.sr, record.sw, record.ch],
                                    "dets": [[float(a_), float(b_)] for a_, b_ in (detections or [])], "eth": energy_threshold,
                                    "save_as": os.path.basename(save_as) if save_as else None, "show": bool(show)})
            P.plot = fake_plot
            if hasattr(C, "plot"):
                C.plot = fake_plot            # in case the command line imports plot at module level
        so, se = io.StringIO(), io.StringIO()
        old_stdin = sys.stdin
        old_argv = sys.argv
        cwd = os.getcwd()
        try:
            if job.get("stdin") is not None:
                class F:
                    pass
                f = F()
                f.buffer = open(job["stdin"], "rb")
                sys.stdin = f
            os.chdir(job["cwd"])
            sys.argv = ["auditok"] + job["argv"]
            t0 = _time.time()
            with contextlib.redirect_stdout(so), contextlib.redirect_stderr(se):
                try:
                    res["exit"] = C.main(job["argv"])
                except SystemExit as exc:
                    res["exit"] = exc.code if isinstance(exc.code, int) else 2
                    res["raised"] = "SystemExit"
                except BaseException as exc:  # noqa
                    res["raised"] = type(exc).__name__
            res["wall"] = round(_time.time() - t0, 3)
        finally:
            if job.get("stdin") is not None:
                try:
                    sys.stdin.buffer.close()
                except Exception:
                    pass
            sys.stdin = old_stdin
            sys.argv = old_argv
            os.chdir(cwd)
        res["stdout"] = so.getvalue()
        res["stderr"] = se.getvalue()[-500:] if not job.get("fx") else se.getvalue()[-200000:]
        if job.get("fx"):
            try:
                lines = [x for x in open(os.path.join(consume_dir, "log")).read().split("\n") if x]
            except OSError:
                lines = []
            for j, ln in enumerate(lines):
                rec = {"cmd": ln.split(" ")[0], "exists": ln.endswith(" present"), "sha": None, "par": None}
                try:
                    with wave.open(os.path.join(consume_dir, f"{j}.wav")) as wf:
                        rec["sha"] = hashlib.sha1(wf.readframes(-1)).hexdigest()
                        rec["par"] = [wf.getframerate(), wf.getsampwidth(), wf.getnchannels()]
                except Exception:  # noqa
                    pass
                fx["commands"].append(rec)
            import shutil
            shutil.rmtree(consume_dir, ignore_errors=True)
        res["fx"] = fx
        if real_os is not None:
            W.os = real_os
        P.plot = real_plot
        sys.modules.pop("pyaudio", None)
        # one process runs many command lines: the named logger of cmdline_util must not carry handlers from one to the next
        lg = logging.getLogger("AUDITOK_LOGGER")
        for h_ in list(lg.handlers):
            lg.removeHandler(h_)
            try:
                h_.close()
            except Exception:  # noqa
                pass
        gc.collect()
        # wait for stray threads (a failed run may leave workers behind)
        import threading
        for _ in range(200):
            if len(threading.enumerate()) == 1:
                break
            _time.sleep(0.005)
        res["threads_left"] = len(threading.enumerate()) - 1
        out.append(res)
    json.dump(out, open(sys.argv[2], "w"))


if __name__ == "__main__":
    main()
