"""Runs auditok.cmdline.main(argv) jobs in a process of its own (main() polls threading.enumerate() == 1, so the
process must have no other threads).  usage: python -m harness.cli_worker <jobs.json> <results.json>"""
import contextlib
import io
import json
import os
import sys
import time as _time
import types


def main():
    jobs = json.load(open(sys.argv[1]))
    repo = os.environ.get("AUDITOK_REPO", "/repo")
    sys.path.insert(0, repo)
    import auditok.cmdline as C
    shim = types.ModuleType("time_shim")
    shim.sleep = lambda s: _time.sleep(0.002)       # the 1 s poll of main(), shortened
    shim.time = _time.time
    C.time = shim
    out = []
    for job in jobs:
        res = {"id": job["id"], "exit": None, "raised": None, "stdout": "", "stderr": ""}
        so, se = io.StringIO(), io.StringIO()
        old_stdin = sys.stdin
        old_argv = sys.argv
        cwd = os.getcwd()
        try:
            if job.get("stdin") is not None:
                class F:
                    pass
                f = F()
                f.buffer = open(job["stdin"], "rb")
                sys.stdin = f
            os.chdir(job["cwd"])
            sys.argv = ["auditok"] + job["argv"]
            t0 = _time.time()
            with contextlib.redirect_stdout(so), contextlib.redirect_stderr(se):
                try:
                    res["exit"] = C.main(job["argv"])
                except SystemExit as exc:
                    res["exit"] = exc.code if isinstance(exc.code, int) else 2
                    res["raised"] = "SystemExit"
                except BaseException as exc:  # noqa
                    res["raised"] = type(exc).__name__
            res["wall"] = round(_time.time() - t0, 3)
        finally:
            if job.get("stdin") is not None:
                try:
                    sys.stdin.buffer.close()
                except Exception:
                    pass
            sys.stdin = old_stdin
            sys.argv = old_argv
            os.chdir(cwd)
        res["stdout"] = so.getvalue()
        res["stderr"] = se.getvalue()[-500:]
        # wait for stray threads (a failed run may leave workers behind)
        import threading
        for _ in range(200):
            if len(threading.enumerate()) == 1:
                break
            _time.sleep(0.005)
        res["threads_left"] = len(threading.enumerate()) - 1
        out.append(res)
    json.dump(out, open(sys.argv[2], "w"))


if __name__ == "__main__":
    main()
