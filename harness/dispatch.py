"""X05 (beyond the listed properties): the decision tables of auditok/io.py (parameter resolution, format guessing, choice of
the source class, to_file) transcribed in Dispatch.tla; TLC enumerates the grid of cases with the prescribed outcome and the
harness executes every row (thorough) or a seeded sample (quick) on the real functions.  Not registered in MANIFEST.json."""
import os
import random
import shutil
import sys
import time
import types
import wave
from concurrent.futures import ProcessPoolExecutor

from . import tlc
from .common import EVIDENCE, OUT, SEED, MachineryError, Verdict, canon, import_auditok, workdir

VAL = {"sr": {"ok": 16000, "ok2": 8000, "odd": 3}, "sw": {"ok": 2, "ok2": 4, "odd": 3}, "ch": {"ok": 1, "ok2": 2, "odd": 3}}
LONG = {"sr": "sampling_rate", "sw": "sample_width", "ch": "channels"}
FILEPAR = (44100, 2, 2)


def pyval(p, v):
    if v in ("ok", "ok2", "odd"):
        return VAL[p][v]
    return {"none": None, "zero": 0, "neg": -1, "str": str(VAL[p]["ok"]), "flt": float(VAL[p]["ok"])}[v]


def kwargs_of(case):
    """Keyword arguments in one of two orders (a dict keeps insertion order, and which spelling the caller wrote first must not matter)."""
    kw = {}
    short_first = (len(case["ext"]) + len(case["fpar"]) + sum(len(v) for v in case["long"].values()) + len(case["inp"])) % 2 == 1
    for p in ("sr", "sw", "ch"):
        pairs = [(LONG[p], case["long"][p]), (p, case["short"][p])]
        if short_first:
            pairs.reverse()
        for name, v in pairs:
            if v != "absent":
                kw[name] = pyval(p, v)
    return kw


def guess(ext, f):
    g = (ext.lower() if ext else "none") if f == "none" else f.lower()
    return "wav" if g == "wave" else g


def run_case(aio, case, d):
    kw = kwargs_of(case)
    name = os.path.join(d, "f" + ("." + case["ext"] if case["ext"] else ""))
    fmt = None if case["fpar"] == "none" else case["fpar"]
    try:
        if case["op"] == "save":
            data = bytes(range(48))
            if os.path.exists(name):
                os.remove(name)
            aio.to_file(data, name, fmt, **kw)
            raw = open(name, "rb").read()
            if raw == data:
                return {"cls": "rawfile", "err": "none", "par": {"sr": 0, "sw": 0, "ch": 0}}
            with wave.open(name) as w:
                ok = w.readframes(-1) == data
                return {"cls": "wavfile" if ok else "badfile", "err": "none", "par": {"sr": w.getframerate(), "sw": w.getsampwidth(), "ch": w.getnchannels()}}
        inp = case["inp"]
        if inp == "stdin":
            src = aio.get_audio_source("-", **kw)
        elif inp == "bytes":
            src = aio.get_audio_source(bytes(48 if case["aligned"] else 49), **kw)
        elif inp == "mic":
            src = aio.get_audio_source(None, **kw)
        else:
            g = guess(case["ext"], case["fpar"])
            if g == "wav":
                with wave.open(name, "wb") as w:
                    w.setframerate(FILEPAR[0]); w.setsampwidth(FILEPAR[1]); w.setnchannels(FILEPAR[2]); w.writeframes(bytes(48))
            else:
                with open(name, "wb") as f:
                    f.write(bytes(48 if case["aligned"] else 49))
            extra = {}
            if fmt is not None:
                extra["audio_format"] = fmt
            if case["large"]:
                extra["large_file"] = True
            src = aio.get_audio_source(name, **extra, **kw)
        return {"cls": type(src).__name__, "err": "none", "par": {"sr": src.sampling_rate, "sw": src.sample_width, "ch": src.channels}}
    except Exception as exc:  # noqa
        return {"cls": "none", "err": type(exc).__name__, "par": {"sr": 0, "sw": 0, "ch": 0}}


def _batch(args):
    rows, d = args
    import_auditok()
    from auditok import io as aio
    os.makedirs(d, exist_ok=True)
    # observation O9: a file source whose constructor rejects the sample width has no _audio_stream yet, so its __del__ raises
    # AttributeError ("Exception ignored in ..." on stderr); harmless, kept off the check's output
    sys.unraisablehook = lambda *a: None
    mod = types.ModuleType("pyaudio")

    class PyAudio:
        def get_format_from_width(self, w):
            return {1: 16, 2: 8, 4: 2}.get(w, 0)

        def terminate(self):
            pass
    mod.PyAudio = PyAudio
    sys.modules["pyaudio"] = mod

    class F:
        buffer = None
    old = sys.stdin
    out = []
    try:
        out = [run_case(aio, r["case"], d) for r in rows]
    finally:
        sys.stdin = old
        sys.modules.pop("pyaudio", None)
        shutil.rmtree(d, ignore_errors=True)
    return out


def check(prop, tier, replay=None):
    import_auditok()
    V = Verdict("X05", tier)
    wd = workdir("dispatch")
    res = tlc.run("DispatchMC", "SPECIFICATION Spec\nINVARIANT Sane\nCONSTRAINT Export\nCHECK_DEADLOCK FALSE\n", wd, name="mc", timeout=3000, mem="8g")
    tlc.require_ok(res, "leg M")
    V.add_model("M", res)
    if res["violated"] or not res["ok"]:
        raise MachineryError(f"leg M: {res['violated']} / {res['error']}\n" + tlc.counterexample(res, 30))
    V.cov["exhaustive"] = True
    rows = {}
    for j in res["json"]:
        rows.setdefault(canon(j["case"]), j)
    rows = [rows[k] for k in sorted(rows)]
    if tier == "quick":
        rng = random.Random(SEED + 505)
        rng.shuffle(rows)
        rows = rows[:16000]
    t0 = time.time()
    step = max(1, len(rows) // 64)
    parts = [(rows[i:i + step], os.path.join(wd, f"d{i}")) for i in range(0, len(rows), step)]
    got = []
    with ProcessPoolExecutor(max_workers=16) as ex:
        for r in ex.map(_batch, parts):
            got += r
    bad = 0
    for row, g in zip(rows, got):
        exp = row["out"]
        same = g["cls"] == exp["cls"] and g["err"] == exp["err"] and (exp["err"] != "none" or exp["cls"] == "rawfile" or g["par"] == exp["par"])
        if not same:
            bad += 1
            c = row["case"]
            call = (f"to_file(data, 'f{'.' + c['ext'] if c['ext'] else ''}', audio_format={c['fpar']}, **{kwargs_of(c)})" if c["op"] == "save" else
                    f"get_audio_source({c['inp']}{' f.' + c['ext'] if c['inp'] == 'file' else ''}{' (misaligned data)' if not c['aligned'] else ''}, audio_format={c['fpar']}, "
                    f"large_file={c['large']}, **{kwargs_of(c)})")
            V.violation({"case": c}, f"{call} -> {g}; Dispatch.tla prescribes {exp}", {"leg": "R", "row": row, "got": g})
    V.cov["traces_validated_against_impl"] += len(rows)
    V.count(len(rows), (canon(r["case"]) for r in rows if r["out"]["err"] == "none"))
    V.leg("R", rows=len(rows), mismatches=bad, wall_s=round(time.time() - t0, 2))
    V.sample({"leg": "R", "row": rows[0]})
    rc = V.finish(rule="leg M: TLC enumerates the case grid of Dispatch.tla (one parameter in every long/short combination of 9 ways to pass it, every "
                       "input kind, extension, explicit format, lazy flag, alignment) with the prescribed outcome; leg R: each row executed on "
                       "get_audio_source / to_file (quick: seeded sample of 16 000 rows)")
    try:
        shutil.move(os.path.join(EVIDENCE, "X05.json"), os.path.join(OUT, "X05.json"))
    except OSError:
        pass
    return rc
