"""X01 (beyond the listed properties): PyAudio-backed source, player and microphone load against a fake pyaudio
module, judged by TLC on Mic.tla.  Not registered in MANIFEST.json (no listed property speaks about the microphone);
run with ./check X01 [quick|thorough]."""
import random
import sys
import types
from fractions import Fraction

from .audio import make_audio, decode, max_ids
from .common import SEED, Verdict, canon, import_auditok, workdir
from .judge import judge


class FakeStream:
    def __init__(self, dev, bps, output=False):
        self.dev, self.bps, self.pos, self.output = dev, bps, 0, output
        self.written = []
        self.stopped = False
        self.closed = False

    def is_active(self):
        return not self.closed and self.pos < len(self.dev)

    def is_stopped(self):
        return self.stopped

    def start_stream(self):
        self.stopped = False

    def stop_stream(self):
        self.stopped = True

    def close(self):
        self.closed = True

    def read(self, n):
        d = self.dev[self.pos:self.pos + n * self.bps]
        self.pos += len(d)
        return d

    def write(self, chunk):
        self.written.append(bytes(chunk))


def install_fake(dev_bytes, bps):
    mod = types.ModuleType("pyaudio")
    state = {"streams": []}

    class PyAudio:
        def get_format_from_width(self, w):
            return {1: 16, 2: 8, 4: 2}.get(w, 0)

        def open(self, **kw):
            s = FakeStream(dev_bytes, bps, output=kw.get("output", False))
            state["streams"].append((kw, s))
            return s

        def terminate(self):
            pass
    mod.PyAudio = PyAudio
    sys.modules["pyaudio"] = mod
    return state


def check(prop, tier, replay=None):
    import_auditok()
    from auditok import io as aio, core
    V = Verdict("X01", tier)
    wd = workdir("mic")
    rng = random.Random(SEED + 101)
    cases = []
    for _ in range(300 if tier == "quick" else 5000):
        sw, ch = rng.choice([(1, 1), (2, 1), (2, 2), (4, 1), (4, 2)])
        sr = rng.choice([8, 10, 100, 1000, 8000, 16000])
        bps = sw * ch
        dev_n = min(rng.choice([0, 1, 5, rng.randint(0, 60), rng.randint(0, 4000)]), max_ids(sw, ch) - 2)
        dev = make_audio(dev_n, sw, ch)
        state = install_fake(dev, bps)
        op = rng.choice(["player", "load", "source"])
        try:
            if op == "player":
                if sr < 20:
                    sr = 100      # observation O6: PyAudioPlayer._chunk_data divides by zero when one tenth of a second is less than a byte
                data = make_audio(rng.randint(0, min(3000, max_ids(sw, ch) - 2)), sw, ch)
                pl = aio.PyAudioPlayer(sr, sw, ch) if rng.random() < .5 else aio.player_for(core.AudioRegion(data, sr, sw, ch))
                gen, nb = pl._chunk_data(data) if False else (None, None)
                pl.play(data)
                out = state["streams"][-1][1].written
                # nb_chunks as the library announces it to the progress bar
                _, nbc = pl._chunk_data(data)
                cases.append({"op": "player", "sr": sr, "sw": sw, "ch": ch, "n": len(data), "sizes": [len(x) for x in out], "nb_chunks": nbc,
                              "same_bytes": b"".join(out) == data})
            elif op == "load":
                if sr > 1000:
                    sr = rng.choice([8, 10, 100, 1000])          # keeps t * rate products of the specification below 2^31
                for _ in range(30):
                    t = round(rng.randint(0, dev_n + 5) / sr + rng.choice([0, 0.3, -0.3]) / sr, 4)
                    fr = (Fraction(str(t)) * sr) % 1
                    if t >= 0 and abs(fr - Fraction(1, 2)) >= Fraction(1, 20):
                        break
                else:
                    t = 0
                reg = core.load(None, max_read=t, sampling_rate=sr, sample_width=sw, channels=ch)
                k, ids = decode(bytes(reg), sw, ch) if len(reg) else ("blk", [])
                f = Fraction(str(t))
                cases.append({"op": "load", "sr": sr, "dev": dev_n, "tn": f.numerator, "td": f.denominator, "got": len(ids),
                              "prefix_ok": ids == list(range(1, len(ids) + 1)), "par_ok": [reg.sr, reg.sw, reg.ch] == [sr, sw, ch]})
            else:
                src = aio.get_audio_source(None, sampling_rate=sr, sample_width=sw, channels=ch)
                closed_err = False
                try:
                    src.read(1)
                except (OSError, aio.AudioIOError):
                    closed_err = True
                src.open()
                reads = []
                for _ in range(rng.randint(1, 8)):
                    kreq = rng.randint(1, max(1, dev_n // 2 + 2))
                    kk, ids = decode(src.read(kreq), sw, ch)
                    reads.append({"k": kreq, "got": len(ids) if kk == "blk" else -1, "first": (ids[0] - 1) if kk == "blk" and ids else -1})
                src.close()
                cases.append({"op": "source", "dev": dev_n, "reads": reads, "closed_err": closed_err})
        except Exception as exc:  # noqa
            cases.append({"op": op, "error": type(exc).__name__})
        finally:
            sys.modules.pop("pyaudio", None)
    full = []
    for c in cases:
        d = {"op": c["op"], "sr": 1, "sw": 1, "ch": 1, "n": 0, "sizes": [], "nb_chunks": -1, "same_bytes": False, "dev": 0, "tn": 0, "td": 1, "got": -7,
             "prefix_ok": False, "par_ok": False, "reads": [], "closed_err": False}
        d.update({k: v for k, v in c.items() if k != "error"})
        full.append(d)
    rows, st = judge("Mic", "SPECIFICATION Spec\nCONSTRAINT Mon\nPOSTCONDITION Post\nCHECK_DEADLOCK FALSE\n", full, wd, "mic", weight=lambda x: 1)
    V.cov["states"] += st
    V.cov["transitions"] += st
    for c, row in zip(cases, rows):
        if row[2] != 1:
            V.violation({"case": c}, f"fake-PyAudio case {c}: not what Mic.tla prescribes", {"leg": "T", "case": c})
    V.cov["traces_validated_against_impl"] += len(cases)
    V.count(len(cases), (canon(c) for c in cases))
    V.sample({"leg": "T", "case": cases[0]})
    rc = V.finish(rule="seeded cases against a fake pyaudio module (player chunking, microphone load, microphone source), judged by TLC on Mic.tla")
    # X01 is not a listed property: its evidence goes to out/, not to evidence/
    import os
    import shutil
    from .common import EVIDENCE, OUT
    try:
        shutil.move(os.path.join(EVIDENCE, "X01.json"), os.path.join(OUT, "X01.json"))
    except OSError:
        pass
    return rc
