"""Tokenizer checks: C01 C02 C03 C04 C08 (and the tokenizer part of C20).

leg M : TLC on TokenizerMC (every parameter tuple of the tier grid x every validity stream up to the
        bound), invariants = the property's formulas; every terminal behaviour is exported.
leg R : every exported behaviour is run through the real StreamTokenizer (generator mode) and the
        observable history (start, end, at, fl per token) compared with the specification's; any
        mismatch is re-judged by TLC on the observation layer to decide WHICH property it breaks.
leg T : seeded random runs far beyond the model bounds (long streams, max_length up to 12, four frame
        types, two validator kinds, three delivery modes, every prefix of some streams); every trace
        is judged by TLC twice: free observation spec with the property monitors (-> VIOLATION) and
        implementation-shaped trace spec (-> DIVERGENCE only).
"""
import json
import math
import os
import random
import subprocess
import sys
import time
from concurrent.futures import ProcessPoolExecutor, ThreadPoolExecutor

from . import tlc
from .common import NCPU, REPO, SEED, MachineryError, Verdict, canon, import_auditok, key_of, workdir

PROPS = ["C01", "C02", "C03", "C04", "C08"]
MON_BASE = {"C01": 4, "C02": 5, "C03": 6, "C04": 7, "C08": 8, "C04x": 9, "CRASH": 10}

GRIDS = {
    "quick": [
        ("gridA", dict(MaxFrames=7, MinSet="{1,2,3}", MaxSet="{1,2,3}", SilSet="{0,1,2}", IMinSet="{0,1,2}", ISilSet="{0,1}")),
        ("gridInit", dict(MaxFrames=8, MinSet="{1,3}", MaxSet="{4}", SilSet="{0,1}", IMinSet="{2,3}", ISilSet="{1,2}")),
    ],
    "thorough": [
        ("gridA", dict(MaxFrames=9, MinSet="{1,2,3,4}", MaxSet="{1,2,3,4}", SilSet="{0,1,2,3}", IMinSet="{0,1,2,3}", ISilSet="{0,1,2}")),
        ("gridLong", dict(MaxFrames=12, MinSet="{1,2,3}", MaxSet="{1,2,3,4}", SilSet="{0,1,2}", IMinSet="{0,1}", ISilSet="{0}")),
        ("gridInit", dict(MaxFrames=10, MinSet="{1,2}", MaxSet="{4,5}", SilSet="{0,1,2}", IMinSet="{2,3,4}", ISilSet="{1,2,3}")),
    ],
}

INVARIANTS = {
    "C01": ["TypeOK", "C01"],
    "C02": ["TypeOK", "C02", "AbsInv"],
    "C03": ["TypeOK", "C03", "AbsInv", "InChainSame"],
    "C04": ["TypeOK", "C04", "C04Cover", "C04CoverDecl", "C04First", "C04NoInvent", "SegSame"],
    "C08": ["TypeOK", "C08", "FlushCandidateKept", "NoSurprise"],
}


def mc_cfg(consts, invs, props=(), export=True, fix=(True, True)):
    c = ["CONSTANTS"]
    for k, v in consts.items():
        c.append(f"  {k} = {v}")
    c.append(f"  FixD1 = {'TRUE' if fix[0] else 'FALSE'}")
    c.append(f"  FixD2 = {'TRUE' if fix[1] else 'FALSE'}")
    c.append("SPECIFICATION PSpec")
    for i in invs:
        c.append(f"INVARIANT {i}")
    for pr in props:
        c.append(f"PROPERTY {pr}")
    if export:
        c.append("CONSTRAINT Export")
    c.append("CHECK_DEADLOCK TRUE")
    return "\n".join(c) + "\n"


# ----------------------------------------------------------------------------------------------
# running the real tokenizer and recording a trace at the API boundary
# ----------------------------------------------------------------------------------------------
FTYPES = ["tuple", "obj", "str", "bytes", "int"]


class _Frame:
    __slots__ = ("idx", "valid")

    def __init__(self, i, v):
        self.idx = i
        self.valid = v


def _mk_frame(ftype, i, v):
    if ftype == "tuple":
        return (i, v)
    if ftype == "obj":
        return _Frame(i, v)
    if ftype == "str":
        return chr(0x100 + 2 * i + (1 if v else 0))
    if ftype == "bytes":
        return (2 * i + (1 if v else 0)).to_bytes(4, "little")
    return 2 * i + (1 if v else 0)


def _frame_idx_valid(ftype, f):
    """Projection: frame object -> (index, validity); (-1, False) for anything unexpected."""
    try:
        if ftype == "tuple":
            return f[0], f[1]
        if ftype == "obj":
            return f.idx, f.valid
        if ftype == "str":
            n = ord(f) - 0x100
        elif ftype == "bytes":
            n = int.from_bytes(f, "little")
        else:
            n = int(f)
        return n // 2, bool(n & 1)
    except Exception:
        return -1, False


def mode_of(p):
    return (2 if p["strict"] else 0) | (4 if p["drop"] else 0)


def run_trace(core, util, p, stream, mode="gen", ftype="tuple", vkind="callable", tokenizer=None,
              consume=None, real=None):
    """Run the real StreamTokenizer on `stream` (list of booleans) and return the trace record.
    consume: for generator mode, stop consuming after that many tokens (abandoned generator)."""
    ev = []
    n = len(stream)
    frames = [_mk_frame(ftype, i, stream[i]) for i in range(n)]
    handed = {}

    if ftype == "str":
        class Src(util.StringDataSource):
            def read(self_):
                c = super().read()
                if c is None:
                    ev.append({"e": "EOS"})
                else:
                    i, v = _frame_idx_valid("str", c)
                    ev.append({"e": "R", "v": v})
                    handed[i] = c
                return c
        src = Src("".join(frames))
    else:
        class Src(util.DataSource):
            i = 0

            def read(self_):
                if self_.i >= n:
                    ev.append({"e": "EOS"})
                    return None
                f = frames[self_.i]
                ev.append({"e": "R", "v": stream[self_.i]})
                handed[self_.i] = f
                self_.i += 1
                return f
        src = Src()

    def is_valid(f):
        i, v = _frame_idx_valid(ftype, f)
        ev.append({"e": "V", "v": v})
        return v

    if vkind == "callable":
        val = is_valid
    else:
        class Val(util.DataValidator):
            def is_valid(self_, f):
                return is_valid(f)
        val = Val()

    def log_token(data, s, t):
        fr = []
        for f in data:
            i, _ = _frame_idx_valid(ftype, f)
            # identity: the delivered object must be the object the source handed out (where types allow)
            if ftype in ("tuple", "obj") and handed.get(i) is not f:
                i = -1
            fr.append(i)
        ev.append({"e": "T", "s": s, "t": t, "fr": fr, "fv": [bool(_frame_idx_valid(ftype, f)[1]) for f in data]})

    tk = tokenizer
    try:
        if tk is None:
            q = dict(p, **(real or {}))     # real: the (possibly non-integral) numbers actually passed to the constructor
            tk = core.StreamTokenizer(val, q["min"], q["max"], q["sil"], init_min=q["imin"],
                                      init_max_silence=q["isil"], mode=mode_of(p))
        else:
            # reuse: point the existing object at this run's validator
            tk._is_valid = val if callable(val) else val.is_valid
            tk.validator = val
        if mode == "gen":
            k = 0
            g = tk.tokenize(src, generator=True)
            for data, s, t in g:
                log_token(data, s, t)
                k += 1
                if consume is not None and k >= consume:
                    break
            if consume is not None:
                ev.append({"e": "ABANDON"})
                return {"p": p, "mode": mode, "peer": [], "ev": ev, "ftype": ftype, "vkind": vkind, "tk": tk}
        elif mode == "cb":
            ret = tk.tokenize(src, callback=log_token)
            if ret is not None:
                ev.append({"e": "EXC", "cls": "callback mode returned a value"})
        else:
            for data, s, t in tk.tokenize(src):
                log_token(data, s, t)
        ev.append({"e": "END"})
    except Exception as exc:  # noqa
        ev.append({"e": "EXC", "cls": type(exc).__name__})
    return {"p": p, "mode": mode, "peer": [], "ev": ev, "ftype": ftype, "vkind": vkind, "tk": tk}


def observed(tr):
    """(start, end, at, fl) per token as the observation layer would compute them."""
    out = []
    nread = eos = 0
    for e in tr["ev"]:
        k = e["e"]
        if k == "R":
            nread += 1
        elif k == "EOS":
            eos += 1
        elif k == "T":
            out.append([e["s"], e["t"], nread + eos - 1, eos])
    return out


def tokens_of(tr):
    return [[e["s"], e["t"]] for e in tr["ev"] if e["e"] == "T"]


def strip(tr):
    return {k: tr[k] for k in ("p", "mode", "peer", "ev")}


# ----------------------------------------------------------------------------------------------
# TLC as trace judge
# ----------------------------------------------------------------------------------------------
def _judge_shard(args):
    kind, traces, wd, idx = args
    module = "TokenizerObsTrace" if kind == "obs" else "TokenizerTrace"
    tf = os.path.join(wd, f"{kind}_{idx}.json")
    with open(tf, "w") as f:
        json.dump([strip(t) for t in traces], f, separators=(",", ":"))
    if kind == "obs":
        cfg = "SPECIFICATION TSpec\nCONSTRAINT Mon\nPOSTCONDITION Post\nCHECK_DEADLOCK FALSE\n"
    else:
        cfg = ("CONSTANTS MaxFrames = 1000000 MinSet = {} MaxSet = {} SilSet = {} IMinSet = {} ISilSet = {}\n"
               "  FixD1 = TRUE FixD2 = TRUE\nSPECIFICATION TSpec\nCONSTRAINT Progress\nPOSTCONDITION Post\nCHECK_DEADLOCK FALSE\n")
    res = tlc.run(module, cfg, wd, name=f"{kind}_{idx}", workers=1, coverage=False, env={"TRACE_FILE": tf},
                  timeout=1800, mem="3g")
    rows = {}
    for j in res["json"]:
        if isinstance(j, list) and j and j[0] == "TRACE":
            rows[j[1]] = j
    if len(rows) != len(traces):
        raise MachineryError(f"trace judge {kind}#{idx}: {len(rows)} verdicts for {len(traces)} traces; "
                             f"error={res['error']} out={res['out']}")
    return [rows[i + 1] for i in range(len(traces))], res["distinct"]


def judge(kind, traces, wd, shards=None):
    """Returns (rows, states): rows[i] = TLC's verdict row for traces[i]."""
    if not traces:
        return [], 0
    shards = max(1, min(shards or 8, len(traces) // 20 or 1))
    # balance shards by number of events
    order = sorted(range(len(traces)), key=lambda i: -len(traces[i]["ev"]))
    buckets = [[] for _ in range(shards)]
    loads = [0] * shards
    for i in order:
        b = loads.index(min(loads))
        buckets[b].append(i)
        loads[b] += len(traces[i]["ev"])
    jobs = [(kind, [traces[i] for i in b], wd, n) for n, b in enumerate(buckets) if b]
    rows = [None] * len(traces)
    states = 0
    with ThreadPoolExecutor(max_workers=len(jobs)) as ex:
        for (k, tr, w, n), (rws, st) in zip(jobs, ex.map(_judge_shard, jobs)):
            for i, rw in zip(buckets[n], rws):
                rows[i] = rw
            states += st
    return rows, states


def flags_of(row):
    """row of TokenizerObsTrace -> set of violated monitor names ('PARSE' if the trace was not consumed)."""
    bad = set()
    if row[2] != row[3]:
        bad.add("PARSE")
    for name, pos in MON_BASE.items():
        if pos < len(row) and row[pos]:
            bad.add(name)
    return bad


# ----------------------------------------------------------------------------------------------
# leg R worker: replay exported behaviours
# ----------------------------------------------------------------------------------------------
def _replay_chunk(chunk):
    sys.path.insert(0, REPO)
    from auditok import core, util
    bad = []
    nontriv = 0
    for b in chunk:
        p, s, exp = b["p"], b["s"], b["o"]
        tr = run_trace(core, util, p, s, "gen")
        got = observed(tr)
        ok = got == [list(x) for x in exp] and tr["ev"][-1]["e"] == "END"
        if ok:
            for e in tr["ev"]:
                if e["e"] == "T" and e["fr"] != list(range(e["s"], e["t"] + 1)):
                    ok = False
        if exp:
            nontriv += 1
        if not ok:
            tr.pop("tk", None)
            tr["expected"] = exp
            bad.append(tr)
    return len(chunk), nontriv, bad


def replay_behaviours(behaviours):
    n = len(behaviours)
    if n == 0:
        return 0, 0, []
    step = max(200, n // (NCPU * 4))
    chunks = [behaviours[i:i + step] for i in range(0, n, step)]
    tot = nt = 0
    bad = []
    with ProcessPoolExecutor(max_workers=NCPU) as ex:
        for a, b, c in ex.map(_replay_chunk, chunks):
            tot += a
            nt += b
            bad += c
    return tot, nt, bad


# ----------------------------------------------------------------------------------------------
# leg T generators
# ----------------------------------------------------------------------------------------------
def rand_params(rng, prop):
    mx = rng.choice([1, 2, 3, 4, 5, 6, 8, 12])
    mn = rng.randint(1, mx)
    sl = rng.randint(0, mx - 1)
    if prop == "C04":
        im = min(mx - 1, rng.choice([0, 1]))
    else:
        im = min(mx - 1, rng.choice([0, 0, 1, rng.randint(0, mx - 1), rng.randint(0, mx - 1)]))
    isil = rng.randint(0, 3)
    return {"min": mn, "max": mx, "sil": sl, "imin": im, "isil": isil,
            "strict": rng.random() < .5, "drop": rng.random() < .5}


def rand_stream(rng, p, n, prop):
    """Validity stream biased towards the shapes that matter: runs of silence of length sil-1..sil+1
    straddling multiples of max, cut-then-gap-then-short-burst (D1 shape), long init phases (D2 shape)."""
    s = []
    style = rng.random()
    while len(s) < n:
        if style < .35:
            s.append(rng.random() < rng.choice([.3, .5, .7, .9]))
            continue
        # burst / gap construction
        burst = rng.choice([1, 2, p["min"], p["max"] - 1, p["max"], p["max"] + 1, 2 * p["max"], 2 * p["max"] + 1, rng.randint(1, 3 * p["max"])])
        for _ in range(max(1, burst)):
            s.append(True if rng.random() < .85 else False)
        gap = rng.choice([p["sil"] - 1, p["sil"], p["sil"] + 1, p["sil"] + 2, p["isil"], p["isil"] + 1, 1, rng.randint(0, 2 * p["sil"] + 2)])
        s.extend([False] * max(0, gap))
    return s[:n]


def frac_traces(tier, rng, core, util):
    """Leg F (C01 only): the constructor also accepts non-integral lengths (`max_length=0.3/0.1` = 2.9999999999999996 is what a
    caller gets who divides durations himself).  C01 quantifies over every accepted tuple and its formula mentions no parameter,
    so these runs are judged by the same TLC monitor; the trace carries the ceilings as integer surrogates (TLC has no reals) and
    ONLY the C01 verdict is read (C02-C04 are stated over the integer domain, observation O7)."""
    out = []
    nruns = 1500 if tier == "quick" else 20000
    quot = [0.3 / 0.1, 0.7 / 0.1, 0.6 / 0.2, 0.15 / 0.05, 1.1 / 0.1, 0.9 / 0.3]
    for k in range(nruns):
        mx = rng.choice([rng.choice(quot), rng.randint(1, 8) + rng.choice([.5, .25, .75]), rng.randint(2, 8) - 1e-9, rng.randint(1, 8) + 1e-9])
        mn = rng.choice([1, rng.randint(1, max(1, int(mx))), rng.uniform(0.1, mx), mx])
        sl = rng.choice([0, rng.randint(0, max(0, math.ceil(mx) - 2)), rng.uniform(0, mx * .999)])
        im = rng.choice([0, 0, 1, rng.uniform(0, mx * .999)])
        isil = rng.choice([0, 1, 2, rng.uniform(0, 3)])
        real = {"min": mn, "max": mx, "sil": sl, "imin": im, "isil": isil}
        p = {k_: int(math.ceil(v)) for k_, v in real.items()}
        p["strict"] = rng.random() < .5
        p["drop"] = rng.random() < .5
        s = rand_stream(rng, p, rng.choice([rng.randint(0, 12), rng.randint(0, 60), rng.randint(0, 60)]), "C01")
        t = run_trace(core, util, p, s, rng.choice(["gen", "cb", "list"]), rng.choice(FTYPES), "callable", real=real)
        t.pop("tk")
        t["peer"] = tokens_of(t)
        t["real"] = real
        out.append(t)
    return out


def long_traces(prop, tier, rng, core, util):
    """A few very long streams (thousands of frames, max_length up to 300): anything that only shows after many frames --
    a counter wrapping, an internal cache boundary, an index past a power of two -- is out of reach of short streams."""
    out = []
    for k in range(3 if tier == "quick" else 12):
        mx = [3, 40, 300, 7, 64, 129][k % 6]
        mn = rng.randint(1, min(mx, 3))
        sl = rng.choice([1, 2, mx // 3, mx - 1]) if mx > 2 else rng.randint(0, mx - 1)
        sl = min(sl, mx - 1)
        p = {"min": mn, "max": mx, "sil": sl, "imin": 0 if prop == "C04" else rng.choice([0, 0, min(mx - 1, 2)]), "isil": rng.randint(0, 2),
             "strict": rng.random() < .5, "drop": rng.random() < .5}
        n = rng.randint(2000, 4500) if tier == "quick" else rng.randint(4000, 12000)
        s = rand_stream(rng, p, n, prop)
        t = run_trace(core, util, p, s, rng.choice(["gen", "cb"]), rng.choice(FTYPES), rng.choice(["callable", "DataValidator"]))
        t.pop("tk")
        t["peer"] = tokens_of(t)
        out.append(t)
    return out


def gen_traces(prop, tier, rng, core, util, budget_events):
    """Yield trace records from the real code until the event budget is used."""
    traces = long_traces(prop, tier, rng, core, util)
    events = 0
    maxn = 60 if tier == "quick" else 400
    while events < budget_events:
        p = rand_params(rng, prop)
        n = rng.choice([0, 1, 2, rng.randint(0, 12), rng.randint(0, maxn), rng.randint(0, maxn)])
        s = rand_stream(rng, p, n, prop)
        ftype = rng.choice(FTYPES)
        vkind = rng.choice(["callable", "DataValidator"])
        ref = run_trace(core, util, p, s, "gen", ftype, vkind)
        ref.pop("tk")
        peer = tokens_of(ref)
        ref["peer"] = peer
        group = [ref]
        if prop in ("C08", "C01") or rng.random() < .3:
            for m in ("cb", "list"):
                t = run_trace(core, util, p, s, m, rng.choice(FTYPES), vkind)
                t.pop("tk")
                t["peer"] = peer
                group.append(t)
        if prop == "C08" and n > 0:
            # every prefix (capped) as its own stream: prefix consistency on the real code
            cuts = list(range(n))
            if len(cuts) > (16 if tier == "quick" else 64):
                cuts = sorted(rng.sample(cuts, 16 if tier == "quick" else 64))
            for c in cuts:
                t = run_trace(core, util, p, s[:c], "gen", "tuple", "callable")
                t.pop("tk")
                t["peer"] = tokens_of(t)
                t["prefix_of"] = len(traces)  # index of the whole-stream trace in `traces`
                t["cut"] = c
                group.append(t)
        if rng.random() < .25:
            group += history_group(core, util, rng, p, maxn, prop)
        for t in group:
            events += len(t["ev"])
        traces.extend(group)
    return traces


def history_group(core, util, rng, p, maxn, prop):
    """ONE tokenizer object used for several streams (C01-C04 hold for every run of a tokenizer, not only the first):
    'sequential' = each run consumed before the next is requested, the earlier streams ending exactly on a max_length cut
    half of the time; 'upfront' = all generators requested first, then consumed one after the other."""
    cur = {"ev": None}

    def val(f):
        cur["ev"].append({"e": "V", "v": bool(f[1])})
        return f[1]

    class Boom(Exception):
        pass

    class Src(util.DataSource):
        def __init__(s_, stream, ev, fail_at=None):
            s_.s, s_.i, s_.ev, s_.fail_at = stream, 0, ev, fail_at

        def read(s_):
            cur["ev"] = s_.ev
            if s_.fail_at is not None and s_.i == s_.fail_at:
                raise Boom()            # a device error / interrupt in the middle of a stream
            if s_.i >= len(s_.s):
                s_.ev.append({"e": "EOS"})
                return None
            s_.ev.append({"e": "R", "v": bool(s_.s[s_.i])})
            s_.i += 1
            return (s_.i - 1, s_.s[s_.i - 1])
    tk = core.StreamTokenizer(val, p["min"], p["max"], p["sil"], init_min=p["imin"], init_max_silence=p["isil"], mode=mode_of(p))
    streams = []
    for k in range(rng.randint(2, 3)):
        n = rng.randint(0, min(maxn, 30))
        s = rand_stream(rng, p, n, prop)
        shape = rng.random()
        if shape < .3:
            s = [False] * rng.randint(0, 2) + [True] * (p["max"] * rng.randint(1, 2))       # ends exactly on a cut
        elif shape < .45:
            # ends on a cut followed by a tolerated silence (a leftover of silent frames only), or in the middle of an event
            s = [False] * rng.randint(0, 3) + [True] * (p["max"] * rng.randint(1, 2)) + [False] * rng.randint(0, max(0, p["sil"]))
            if rng.random() < .4:
                s = s + [True] * rng.randint(1, max(1, p["max"] - 1))
        elif shape < .6:
            s = [True] * rng.randint(1, max(1, p["min"])) + [False] * (p["sil"] + 2) + s    # starts with a short burst
        elif shape < .8:
            s = [False] * rng.randint(1, max(1, p["sil"])) + [True] * rng.randint(1, p["max"]) + [False] * (p["sil"] + 1) + s   # starts with a few silent frames, then activity
        streams.append(s)
    if rng.random() < .5 and len(streams) >= 2:
        # pairs made to reveal state carried from one run into the next: what the earlier stream leaves behind (an unfinished event, a cut
        # at max_length, a cut followed by tolerated silence) meets the opening of the later one that would be treated differently
        lead = [False] * rng.randint(0, 2)
        kind_ = rng.choice(["mid-event", "cut", "cut+silence"])
        if kind_ == "mid-event":
            first_ = lead + [True] * (p["max"] * rng.randint(0, 1) + rng.randint(1, max(1, p["max"] - 1)))
        elif kind_ == "cut":
            first_ = lead + [True] * (p["max"] * rng.randint(1, 2))
        else:
            first_ = lead + [True] * (p["max"] * rng.randint(1, 2)) + [False] * rng.randint(1, max(1, p["sil"]))
        opening = rng.choice(["silence-then-activity", "short-burst", "activity"])
        if opening == "silence-then-activity":
            second_ = [False] * rng.randint(1, max(1, p["sil"])) + [True] * rng.randint(1, p["max"] + 1) + [False] * (p["sil"] + 1)
        elif opening == "short-burst":
            second_ = [True] * rng.randint(1, max(1, p["min"] - 1)) + [False] * (p["sil"] + 2)
        else:
            second_ = [True] * rng.randint(1, p["max"] + 1) + [False] * (p["sil"] + 1)
        streams[0], streams[1] = first_, second_ + rand_stream(rng, p, rng.randint(0, 8), prop)
    style = rng.choice(["sequential", "upfront", "fault"])
    if style == "fault":
        # the first stream breaks (exception out of read()) while a candidate token is buffered; the caller catches it and goes on
        s0 = [False] * rng.randint(0, 2) + [True] * rng.randint(1, max(1, p["max"] - 1)) + [True, False, True]
        try:
            for _ in tk.tokenize(Src(s0, [], fail_at=rng.randint(1, len(s0) - 1)), generator=rng.random() < .5) or ():
                pass
        except Boom:
            pass
        style = "sequential"
    evs = [[] for _ in streams]
    out = []
    gens = [tk.tokenize(Src(s, ev), generator=True) for s, ev in zip(streams, evs)] if style == "upfront" else None
    for k, (s, ev) in enumerate(zip(streams, evs)):
        cur["ev"] = ev
        try:
            g = gens[k] if gens else tk.tokenize(Src(s, ev), generator=True)
            for data, a, b in g:
                ev.append({"e": "T", "s": a, "t": b, "fr": [d[0] for d in data], "fv": [bool(d[1]) for d in data]})
            ev.append({"e": "END"})
        except Exception as exc:  # noqa
            ev.append({"e": "EXC", "cls": type(exc).__name__})
        fresh = core.StreamTokenizer(lambda f: f[1], p["min"], p["max"], p["sil"], init_min=p["imin"], init_max_silence=p["isil"], mode=mode_of(p))
        peer = [[a, b] for _, a, b in fresh.tokenize(Src(s, []))]
        out.append({"p": p, "mode": "gen", "peer": peer, "ev": ev, "ftype": "tuple", "vkind": f"reused tokenizer ({style}, run {k + 1})"})
    return out


def prefix_consistent(whole, pref, p):
    """C08: tokens of a prefix = tokens of the whole stream restricted to it, except that the prefix's last
    token, if produced by the flush, may be a shorter version (same start) of the corresponding token."""
    wt = tokens_of(whole)
    pt = observed(pref)
    for i, (s, t, at, fl) in enumerate(pt):
        if i >= len(wt):
            return False
        if fl == 0:
            if wt[i] != [s, t]:
                return False
        else:
            if wt[i][0] != s or wt[i][1] < t:
                return False
    # nothing the whole stream delivered strictly inside the prefix may be missing
    c = pref["cut"]
    wo = observed(whole)
    must = [x for x in wo if x[3] == 0 and x[2] < c]
    return len(pt) >= len(must) and all(pt[i][:2] == must[i][:2] for i in range(len(must)))


# ----------------------------------------------------------------------------------------------
# the check
# ----------------------------------------------------------------------------------------------
def constructor_grid(core):
    """C02: accept/reject decision over the whole small integer grid."""
    tot = bad = 0
    fails = []
    acc = 0
    for mn in range(-1, 6):
        for mx in range(-1, 6):
            for sl in range(-1, 6):
                for im in range(-1, 6):
                    for isil in (-1, 0, 3):
                        for mode in range(-1, 9):
                            exp = (mx > 0 and mn > 0 and mn <= mx and sl < mx and im < mx and mode in (0, 2, 4, 6))
                            try:
                                core.StreamTokenizer(lambda f: True, mn, mx, sl, init_min=im, init_max_silence=isil, mode=mode)
                                got = True
                            except ValueError:
                                got = False
                            except Exception as exc:  # noqa
                                got = type(exc).__name__
                            tot += 1
                            acc += 1 if got is True else 0
                            if got != exp:
                                bad += 1
                                if len(fails) < 20:
                                    fails.append({"min": mn, "max": mx, "sil": sl, "imin": im, "isil": isil, "mode": mode,
                                                  "expected": "accepted" if exp else "ValueError", "got": got})
    return tot, acc, fails


def suite_traces(wd):
    """Run the repository's tokenizer / split / worker tests with the tracing plugin; returns the recorded traces
    ([] if the suite cannot be run -- the leg is then simply absent, never an alarm)."""
    from .common import VERIF
    out = os.path.join(wd, "suite_traces.json")
    env = dict(os.environ, VERIF_SUITE_TRACE=out, PYTHONPATH=VERIF + os.pathsep + REPO, PYTHONDONTWRITEBYTECODE="1")
    tests = [t for t in ("tests/test_StreamTokenizer.py", "tests/test_core.py", "tests/test_workers.py", "tests/test_cmdline_util.py")
             if os.path.exists(os.path.join(REPO, t))]
    if not tests:
        return []
    try:
        subprocess.run(["/venv/bin/python", "-m", "pytest", "-q", "-p", "no:cacheprovider", "-p", "harness.suite_trace", "--timeout=120", *tests],
                       cwd=REPO, env=env, capture_output=True, timeout=400)
        return json.load(open(out))
    except Exception:
        return []


def apalache_obligations(V, wd):
    """Init => IndInv, IndInv /\\ Next => IndInv', IndInv => Safe on TokenizerInt with symbolic parameters."""
    import shutil as _sh
    from .common import SPEC
    _sh.copy(os.path.join(SPEC, "TokenizerInt.tla"), wd)
    obligations = [("base", ["--init=Init", "--inv=IndInv", "--length=0"]),
                   ("step", ["--init=IndInit", "--inv=IndInv", "--length=1"]),
                   ("safe", ["--init=IndInit", "--inv=Safe", "--length=0"])]
    done = 0
    detail = {}
    for name, args in obligations:
        t0 = time.time()
        try:
            jtmp = os.path.join(wd, "jtmp")
            os.makedirs(jtmp, exist_ok=True)
            p = subprocess.run(["apalache-mc", "check", "--cinit=CInit", *args, f"--out-dir={wd}/apalache_{name}", "TokenizerInt.tla"],
                               cwd=wd, capture_output=True, text=True, timeout=300,
                               env=dict(os.environ, JVM_ARGS=(os.environ.get("JVM_ARGS", "") + " -Djava.io.tmpdir=" + jtmp).strip()))
            out = p.stdout[-400:]
            ok = "EXITCODE: OK" in p.stdout
            bad = "EXITCODE: ERROR (12)" in p.stdout
        except subprocess.TimeoutExpired:
            ok, bad, out = False, False, "timeout"
        detail[name] = {"ok": ok, "wall_s": round(time.time() - t0, 1)}
        if bad:
            raise MachineryError(f"Apalache found a counterexample to obligation {name} of TokenizerInt (the abstraction is wrong): {out}")
        done += 1 if ok else 0
    V.leg("unbounded", tool="apalache-mc 0.58", module="TokenizerInt", obligations=len(obligations), discharged=done, detail=detail,
          checker_cmd="apalache-mc check --cinit=CInit --init=Init|IndInit --inv=IndInv|Safe --length=0|1 TokenizerInt.tla")
    V.cov["obligations"] = len(obligations)
    V.cov["discharged"] = done


def check(prop, tier, replay=None):
    core_mod = import_auditok() and __import__("auditok.core", fromlist=["x"])
    util_mod = __import__("auditok.util", fromlist=["x"])
    V = Verdict(prop, tier)
    wd = workdir("tok_" + prop)
    rng = random.Random(SEED * 1000 + int(prop[1:]))
    V.assumptions += [
        "TLC 1.8 / SANY / CommunityModules Json+IOUtils, CPython, the recorder and projection code in harness/tok.py",
        "frames are abstracted to (index, validity); the harness uses five concrete frame types whose content encodes the index",
        "leg M is exhaustive only within the tier grid; legs R/T sample beyond it",
    ]

    # ---- leg M + export ------------------------------------------------------------------
    behaviours = []
    for gname, consts in GRIDS[tier]:
        res = tlc.run("TokenizerMC", mc_cfg(consts, INVARIANTS[prop], props=["PAppendOnly"] if prop == "C08" else ()),
                      wd, name=f"mc_{gname}", timeout=3000, mem="12g")
        tlc.require_ok(res, f"leg M {gname}")
        V.add_model(f"M:{gname}", res)
        if res["violated"] or not res["ok"]:
            # The design itself violates the formula: the specification (which transcribes the repaired
            # automaton) or the formula is wrong -> machinery error unless leg R reproduces it in the code.
            raise MachineryError(f"leg M {gname}: {res['violated']} violated / {res['error']} in the specification itself\n"
                                 + tlc.counterexample(res, 80))
        behaviours += res["json"]
        dead = [a for a in ("MReadFrame", "MSilSkip", "MSilStart", "MNValid", "MNInvalid", "MPSValid", "MPSInvalid", "MEmit", "MReadEOS")
                if res["actions"].get(a, [0, 0])[0] == 0]
        if dead:
            raise MachineryError(f"leg M {gname}: actions never taken (vacuous model): {dead}")
    V.cov["exhaustive"] = True

    # ---- unbounded: inductive invariant of the integer abstraction, discharged by Apalache (thorough tier) -------------
    if prop in ("C02", "C03"):
        apalache_obligations(V, wd)          # 20 s: both tiers

    # ---- leg R ---------------------------------------------------------------------------
    t0 = time.time()
    tot, nt, bad = replay_behaviours(behaviours)
    V.cov["traces_validated_against_impl"] += tot
    V.count(tot, (canon([b["p"], b["s"]]) for b in behaviours if b["o"]))
    V.leg("R", behaviours=tot, with_tokens=nt, mismatches=len(bad), wall_s=round(time.time() - t0, 2))
    if behaviours:
        b = next((b for b in behaviours if len(b["o"]) >= 2), behaviours[0])
        V.sample({"leg": "R", "p": b["p"], "stream": b["s"], "spec_tokens(start,end,at,fl)": b["o"]})
    if bad:
        bad.sort(key=lambda t: len(t["ev"]))
        rows, _ = judge("obs", bad[:3000], wd)
        for tr, row in zip(bad[:3000], rows):
            fl = flags_of(row)
            hit = prop in fl or ("C04x" in fl and prop == "C04") or (("CRASH" in fl or "PARSE" in fl) and prop in ("C01", "C04"))
            stream = [e["v"] for e in tr["ev"] if e["e"] == "R"]
            if hit:
                V.violation({"p": tr["p"], "stream": stream},
                            f"tokenizer p={tr['p']} stream={''.join('A' if v else 'a' for v in stream)}: observed tokens "
                            f"{observed(tr)} (spec: {tr['expected']}) violate {sorted(fl)}",
                            {"leg": "R", "trace": strip(tr), "expected": tr["expected"], "monitors_failed": sorted(fl)})
            else:
                V.divergence({"p": tr["p"], "stream": stream, "observed": observed(tr), "spec": tr["expected"], "other_monitors": sorted(fl)})

    # ---- C02: constructor decision table ----------------------------------------------------
    if prop == "C02":
        tot, acc, fails = constructor_grid(core_mod)
        V.leg("constructor", tuples=tot, accepted=acc, wrong=len(fails))
        V.count(tot, (f"ctor{i}" for i in range(acc)))
        for f in fails:
            V.violation({"ctor": f}, f"StreamTokenizer constructor {f}", {"leg": "ctor", "case": f})

    # ---- leg S: the repository's own tests, traced from outside and judged by TLC -----------------------------
    t0 = time.time()
    straces = suite_traces(wd)
    if straces:
        srows, sst = judge("obs", straces, wd, shards=4)
        V.cov["states"] += sst
        son = [i for i, t in enumerate(straces) if t["mode"] != "list"]
        sirows, sist = judge("impl", [straces[i] for i in son], wd, shards=4)
        V.cov["states"] += sist
        sacc = {i: r[2] == r[3] for i, r in zip(son, sirows)}
        for i, (tr, row) in enumerate(zip(straces, srows)):
            fl = flags_of(row)
            stream = [e["v"] for e in tr["ev"] if e["e"] == "R"]
            if prop in fl or ("C04x" in fl and prop == "C04") or ("PARSE" in fl and prop in ("C01", "C04")):
                V.violation({"p": tr["p"], "stream": stream, "mode": tr["mode"], "suite": True},
                            f"(execution of the repository's own test-suite) tokenizer p={tr['p']} mode={tr['mode']} stream="
                            f"{''.join('A' if v else 'a' for v in stream)}: observed tokens {observed(tr)} violate {sorted(fl)}",
                            {"leg": "S", "trace": strip(tr), "monitors_failed": sorted(fl)})
            elif i in sacc and not sacc[i]:
                V.divergence({"suite": True, "p": tr["p"], "stream": stream, "observed": observed(tr)})
        V.cov["traces_validated_against_impl"] += len(straces)
        V.count(len(straces), (canon(["suite", t["p"], [e.get("v") for e in t["ev"] if e["e"] == "R"], t["mode"]]) for t in straces if tokens_of(t)))
    V.leg("S", suite_executions_traced=len(straces), wall_s=round(time.time() - t0, 2))

    # ---- leg T ---------------------------------------------------------------------------
    t0 = time.time()
    budget = 120000 if tier == "quick" else 1500000
    traces = gen_traces(prop, tier, rng, core_mod, util_mod, budget)
    rows, st = judge("obs", traces, wd, shards=8)
    V.cov["states"] += st
    online = [i for i, t in enumerate(traces) if t["mode"] != "list" and t["ev"][-1]["e"] == "END"]
    irows, ist = judge("impl", [traces[i] for i in online], wd, shards=8)
    V.cov["states"] += ist
    accepted = {i: (r[2] == r[3]) for i, r in zip(online, irows)}
    nviol = 0
    for i, (tr, row) in enumerate(zip(traces, rows)):
        fl = flags_of(row)
        stream = [e["v"] for e in tr["ev"] if e["e"] == "R"]
        hit = prop in fl or ("C04x" in fl and prop == "C04") or (("CRASH" in fl or "PARSE" in fl) and prop in ("C01", "C04"))
        if prop == "C08" and "prefix_of" in tr:
            whole = traces[tr["prefix_of"]]
            if not prefix_consistent(whole, tr, tr["p"]):
                hit = True
                fl.add("C08-prefix")
        if hit:
            nviol += 1
            V.violation({"p": tr["p"], "stream": stream, "mode": tr["mode"]},
                        f"tokenizer p={tr['p']} mode={tr['mode']} frames={tr.get('ftype')} stream={''.join('A' if v else 'a' for v in stream)}: "
                        f"observed tokens {observed(tr)} violate {sorted(fl)}",
                        {"leg": "T", "trace": strip(tr), "monitors_failed": sorted(fl)})
        elif i in accepted and not accepted[i]:
            V.divergence({"p": tr["p"], "stream": stream, "observed": observed(tr), "matched_events": row[2]})
    V.cov["traces_validated_against_impl"] += len(traces)
    if prop == "C01":
        t0 = time.time()
        ftr = frac_traces(tier, rng, core_mod, util_mod)
        frows, fst = judge("obs", ftr, wd, shards=8)
        V.cov["states"] += fst
        for tr, row in zip(ftr, frows):
            fl = flags_of(row)
            if fl & {"C01", "CRASH", "PARSE"}:
                stream = [e["v"] for e in tr["ev"] if e["e"] == "R"]
                V.violation({"p": tr["p"], "real": tr["real"], "stream": stream, "mode": tr["mode"]},
                            f"tokenizer constructed with {tr['real']} mode={mode_of(tr['p'])} ({tr['mode']}) stream="
                            f"{''.join('A' if v else 'a' for v in stream)}: observed tokens {observed(tr)} violate C01 "
                            f"(monitors {sorted(fl & {'C01', 'CRASH', 'PARSE'})})",
                            {"leg": "F", "trace": strip(tr), "real": tr["real"]})
        V.cov["traces_validated_against_impl"] += len(ftr)
        V.count(len(ftr), (canon([t["real"], t["p"]["strict"], t["p"]["drop"], [e.get("v") for e in t["ev"] if e["e"] == "R"], t["mode"]])
                           for t in ftr if tokens_of(t)))
        V.leg("F", traces=len(ftr), with_tokens=sum(1 for t in ftr if tokens_of(t)), events=sum(len(t["ev"]) for t in ftr),
              wall_s=round(time.time() - t0, 2))
    if prop == "C08":
        # split() part of the statement: a region is yielded before more than the deciding window is pulled from the input,
        # end of stream is requested from the AudioSource exactly once (judged by TLC on SplitTrace, monitor C08S)
        from . import split as sp
        M = sp.mods()
        ltr = sp.lazy_traces(rng, tier, M, 250 if tier == "quick" else 3000)
        lrows, lst = sp.judge_split(ltr, wd, tag="lazy")
        V.cov["states"] += lst
        for tr, row in zip(ltr, lrows):
            if row[2] != row[3] or row[6]:
                V.violation({"c": tr["c"], "windows": [e["v"] for e in tr["ev"] if e["e"] == "W"], "abandoned": tr["abandoned"]},
                            sp.describe(tr) + f" source events={[e['e'] + str(e.get('got', '')) for e in tr['ev'] if e['e'] in ('SR', 'EOS')][:12]} violates C08 (split laziness)",
                            {"leg": "T-split", "trace": tr, "row": row})
        V.cov["traces_validated_against_impl"] += len(ltr)
        V.count(len(ltr), (canon([t["c"], [e.get("v") for e in t["ev"] if e["e"] == "W"]]) for t in ltr if sp.regs_of(t["ev"])))
        V.leg("T-split", traces=len(ltr), events=sum(len(t["ev"]) for t in ltr))
    V.count(len(traces), (canon([t["p"], [e.get("v") for e in t["ev"] if e["e"] == "R"], t["mode"]]) for t in traces if tokens_of(t)))
    V.leg("T", traces=len(traces), events=sum(len(t["ev"]) for t in traces), impl_checked=len(online),
          impl_accepted=sum(1 for v in accepted.values() if v), wall_s=round(time.time() - t0, 2))
    big = max(traces, key=lambda t: len(t["ev"]))
    V.sample({"leg": "T", "p": big["p"], "mode": big["mode"], "frames": len([e for e in big["ev"] if e["e"] == "R"]),
              "tokens": tokens_of(big)[:12]})
    return V.finish(
        rule="leg M: TLC exhaustive over the tier grid (constants per grid in coverage.legs); leg R: every exported terminal "
             "behaviour (parameter tuple x validity stream) replayed through StreamTokenizer; leg T: seeded random runs of the "
             "real code judged by TLC. distinct = canonical (parameters, stream[, mode]); non-trivial = at least one token delivered")
