"""Deterministic scheduler for auditok/workers.py (no source hooks).

auditok.workers.Queue is rebound to a controlled queue and Worker.start / Worker.join to wrappers.
Managed threads park at every scheduling point (Queue.put / get / get_nowait, the underlying source
read, Thread.start, thread begin, join, thread end); the controller grants exactly one of them per step.
A thread waiting in get(timeout) on an empty inbox can be granted "timeout" (queue.Empty is raised), so
timeout firings are under the controller's -- and through it TLC's -- control.  Unmanaged callers
(finalizers) pass through.  A run ends "done" (all managed threads finished), "deadlock" (nobody enabled)
or "budget" (step budget exhausted): the last two are the observable form of "a thread blocks forever".
"""
import collections
import gc
import queue as _queue
import threading
import time

SCHED = None
_INSTALLED = False


class Sched:
    """Hand-off is by one semaphore per managed thread plus one for the controller (a condition variable with notify_all woke
    every thread at every step: ~0.7 ms per step, which made ten-thousand-detection runs impractical)."""

    def __init__(self, chooser):
        self.cv = threading.RLock()          # protects the tables below (name kept: callers use `with sched.cv`)
        self.ctl = threading.Semaphore(0)    # released whenever a managed thread parks or finishes
        self.sems = {}
        self.parked = {}
        self.grant = {}
        self.alive = set()
        self.finished = set()
        self.names = {}
        self.chooser = chooser
        self.events = []
        self.qnames = {}
        self.steps = 0
        self.aborted = False

    def me(self):
        return self.names.get(threading.get_ident())

    def register_current(self, name):
        self.names[threading.get_ident()] = name
        with self.cv:
            self.alive.add(name)
            self.sems.setdefault(name, threading.Semaphore(0))

    def point(self, kind, info=None):
        name = self.me()
        if name is None:
            return "pass"
        with self.cv:
            sem = self.sems.setdefault(name, threading.Semaphore(0))
            self.parked[name] = (kind, info)
        self.ctl.release()
        while True:
            got = sem.acquire(timeout=1)
            if self.aborted:
                raise SystemExit      # run abandoned (deadlock / budget): unwind this thread quietly
            if got:
                break
        with self.cv:
            d = self.grant.pop(name)
        return d

    def note(self, **kw):
        if self.me() is None:
            return
        self.events.append(dict(th=self.me(), **kw))

    def finish(self):
        name = self.me()
        with self.cv:
            if not self.aborted:
                self.events.append(dict(th=name, pt="end"))
            self.alive.discard(name)
            self.finished.add(name)
        self.ctl.release()

    def enabled(self):
        en = []
        for name, (kind, info) in self.parked.items():
            if kind == "get":
                q, timeout = info
                if q.items:
                    en.append((name, "deliver"))
                elif timeout is not None:
                    en.append((name, "timeout"))
                # else: an untimed get on an empty inbox waits until somebody sends
            elif kind == "join":
                target, timeout = info if isinstance(info, tuple) else (info, None)
                if target in self.finished:
                    en.append((name, "go"))
                elif timeout is not None:
                    en.append((name, "timeout"))           # join(timeout=...): the controller may let the wait expire
            elif kind == "put":
                q, block, timeout = info
                if not q.is_full():
                    en.append((name, "go"))
                elif not block:
                    en.append((name, "go"))                # put_nowait on a full queue: raises at once
                elif timeout is not None:
                    en.append((name, "timeout"))           # bounded wait on a full queue: the controller may let it expire
                # else: blocked until somebody takes a message
            elif kind == "sleep":
                en.append((name, "go"))
                if info:                       # the harness allows a KeyboardInterrupt to be delivered at this poll
                    en.append((name, "interrupt"))
            else:
                en.append((name, "go"))
        return sorted(en)

    def _fair_choice(self, en):
        """Fair completion: prefer steps that are not timeouts, rotating over threads; when only timeouts are enabled fire
        them in turn and count the round (a system where, round after round, nobody can do anything but time out is stuck)."""
        nt = [e for e in en if e[1] != "timeout"]
        pool = nt or en
        self._rr = getattr(self, "_rr", 0) + 1
        self._idle_rounds = 0 if nt else getattr(self, "_idle_rounds", 0) + 1
        return pool[self._rr % len(pool)]

    def _quiescent(self):
        with self.cv:
            return not self.grant and all(n in self.parked for n in self.alive)

    def run(self, max_steps=20000, fair_steps=60000):
        while True:
            t0 = time.time()
            while not self._quiescent():
                self.ctl.acquire(timeout=2)
                if time.time() - t0 > 30 and not self._quiescent():
                    # a managed thread neither finished nor reached a scheduling point: it blocks outside the controller
                    self.abort()
                    return "stuck"
            with self.cv:
                if not self.alive:
                    return "done"
                en = self.enabled()
                if not en:
                    self.abort()
                    return "deadlock"
                if self.steps >= max_steps + fair_steps:
                    self.abort()
                    return "budget"
                if self.steps >= max_steps:
                    # the (possibly unfair) exploration policy has had its share: finish under a fair schedule, so that only a
                    # run that cannot terminate under fairness is reported as not terminating
                    choice = self._fair_choice(en)
                    if getattr(self, "_idle_rounds", 0) > 8 * (len(self.alive) + 1):
                        self.abort()
                        return "deadlock"
                else:
                    choice = self.chooser(en, self)
                if choice is None:
                    self.abort()
                    return "unfollowable"
                name, d = choice
                self.grant[name] = d
                del self.parked[name]
                sem = self.sems[name]
            self.steps += 1
            sem.release()

    def abort(self):
        self.aborted = True
        with self.cv:
            sems = list(self.sems.values())
        for s_ in sems:
            s_.release()


def absmsg(x):
    if isinstance(x, str):
        return {"k": "stop"}
    if isinstance(x, tuple):
        return {"k": "det", "id": x[0]}
    if isinstance(x, (bytes, bytearray)):
        return {"k": "blk", "n": len(x)}
    return {"k": "other"}


class CtlQueue:
    """queue.Queue as auditok.workers may use it: unbounded or bounded, blocking / timed / non-blocking put and get."""

    def __init__(self, maxsize=0):
        self.items = collections.deque()
        self.maxsize = maxsize or 0
        self.owner = SCHED

    def is_full(self):
        return self.maxsize > 0 and len(self.items) >= self.maxsize

    def qsize(self):
        return len(self.items)

    def empty(self):
        return not self.items

    def full(self):
        return self.is_full()

    def put_nowait(self, x):
        return self.put(x, block=False)

    def task_done(self):
        pass

    def name(self):
        return SCHED.qnames.get(id(self), "?")

    def stale(self):
        return self.owner is not SCHED or SCHED is None or SCHED.me() is None

    def put(self, x, block=True, timeout=None):
        if self.stale():
            if self.is_full():
                raise _queue.Full
            self.items.append(x)
            return
        d = SCHED.point("put", (self, block, timeout))
        if d == "timeout" or self.is_full():
            SCHED.note(pt="full", q=self.name(), msg=absmsg(x))
            raise _queue.Full
        self.items.append(x)
        SCHED.note(pt="put", q=self.name(), msg=absmsg(x))

    def get(self, block=True, timeout=None):
        if self.stale():
            if not self.items:
                raise _queue.Empty
            return self.items.popleft()
        if not block:
            return self.get_nowait()
        d = SCHED.point("get", (self, timeout))
        if d == "timeout" or not self.items:
            SCHED.note(pt="timeout", q=self.name())
            raise _queue.Empty
        x = self.items.popleft()
        SCHED.note(pt="get", q=self.name(), msg=absmsg(x))
        return x

    def get_nowait(self):
        if self.stale():
            if not self.items:
                raise _queue.Empty
            return self.items.popleft()
        SCHED.point("get_nowait", self)
        if not self.items:
            SCHED.note(pt="poll", q=self.name(), msg={"k": "none"})
            raise _queue.Empty
        x = self.items.popleft()
        SCHED.note(pt="poll", q=self.name(), msg=absmsg(x))
        return x


def install(W):
    """Rebind the scheduling points of auditok.workers (module object W) once per process."""
    global _INSTALLED
    if _INSTALLED:
        return
    _INSTALLED = True
    # whichever way workers.py spells it: `from queue import Queue` or `import queue; queue.Queue()`
    W.Queue = CtlQueue
    if hasattr(W, "queue"):
        import types
        shim = types.ModuleType("queue_shim")
        for n_ in dir(_queue):
            if not n_.startswith("__"):
                setattr(shim, n_, getattr(_queue, n_))
        shim.Queue = CtlQueue
        W.queue = shim
    _os, _oj = threading.Thread.start, threading.Thread.join

    def ctl_start(self):
        name = getattr(self, "_ctl_name", None)
        if name is None or SCHED is None or SCHED.me() is None:
            return _os(self)
        run = self.run
        sched = SCHED

        def wrapped():
            sched.register_current(name)
            try:
                sched.point("begin")
                sched.note(pt="begin")
                run()
            except SystemExit:
                pass
            finally:
                sched.finish()
        self.run = wrapped
        self.daemon = True
        sched.point("start", name)
        with sched.cv:
            sched.alive.add(name)
        sched.note(pt="start", target=name)
        _os(self)

    def ctl_join(self, timeout=None):
        name = getattr(self, "_ctl_name", None)
        if name is None or SCHED is None or SCHED.me() is None:
            return _oj(self, timeout)
        d = SCHED.point("join", (name, timeout))
        if d == "timeout":
            SCHED.note(pt="join_timeout", target=name)
            return
        SCHED.note(pt="join", target=name)
        _oj(self)

    _oa = threading.Thread.is_alive

    def ctl_is_alive(self):
        # Not used by the pinned workers.py; a liveness query is a cross-thread observation outside the queues, so it is
        # made a scheduling point: a change that starts consulting it can then be interleaved like any other step.
        name = getattr(self, "_ctl_name", None)
        if name is None or SCHED is None or SCHED.me() is None:
            return _oa(self)
        SCHED.point("is_alive", name)
        with SCHED.cv:
            alive = name in SCHED.alive
        SCHED.note(pt="is_alive", target=name, alive=alive)
        return alive

    W.Worker.start = ctl_start
    W.Worker.join = ctl_join
    W.Worker.is_alive = ctl_is_alive


def inbox_of(worker):
    """The controlled queue a worker owns, whatever the attribute is called."""
    for v in vars(worker).values():
        if isinstance(v, CtlQueue):
            return v
    raise AttributeError("worker has no controlled inbox queue")


def new_run(chooser):
    global SCHED
    gc.collect()
    SCHED = Sched(chooser)
    return SCHED


def run_main(fn, max_steps=20000):
    """Run fn() as the managed thread 'main' under the current SCHED; returns the run status."""
    sched = SCHED

    def main():
        sched.register_current("main")
        try:
            sched.point("begin")
            sched.note(pt="begin")
            fn()
        except SystemExit:
            pass
        except Exception as exc:  # noqa
            sched.events.append(dict(th="main", pt="exc", cls=type(exc).__name__))
        finally:
            sched.finish()
    with sched.cv:
        sched.alive.add("main")
    t = threading.Thread(target=main, daemon=True)
    was = gc.isenabled()
    gc.disable()
    try:
        t.start()
        res = sched.run(max_steps)
        t.join(timeout=5)
    finally:
        if was:
            gc.enable()
    return res
