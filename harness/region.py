"""AudioRegion checks: C16 (slicing by samples / seconds / milliseconds, len, duration, index errors) and
C17 (concatenate, sum, repeat, divide, join, silence, equality, parameter errors, immutability).

leg M : TLC on RegionMC: every (length, bytes-per-sample, start, stop) of the bound -- implementation-shaped
        byte-offset computation = Python slicing on samples; every (length, divisor) -- the division loop =
        "min(n,len) pieces differing by at most one"; every instant on an eighth-of-a-sample grid for the views.
leg R : one implementation test per exported case on real regions (1/2/4-byte x 1-3 channel samples).
leg T : seeded operation sequences over a pool of real regions (results feed later operations), every call
        projected and judged by TLC on RegionTrace.
"""
import dataclasses
import os
import random
import time
from fractions import Fraction

from . import tlc
from .audio import make_audio, max_ids, sample_bytes
from .common import SEED, MachineryError, Verdict, canon, import_auditok, workdir
from .judge import judge

NONE = -9999
FORMATS = [(1, 1), (2, 1), (2, 2), (4, 1), (1, 3), (4, 2), (4, 3)]
C16_OPS = {"slice", "sec", "ms", "len", "typeerr"}


def project(region, sw, ch):
    """AudioRegion -> list of sample ids (0 for an all-zero sample, -1 unknown), or None if ragged."""
    data = bytes(region)
    bps = sw * ch
    if len(data) % bps:
        return None
    k = min(bps, 3)
    ids = []
    for o in range(0, len(data), bps):
        s = data[o:o + bps]
        if not any(s):
            ids.append(0)
            continue
        i = int.from_bytes(s[:k], "little")
        ids.append(i if sample_bytes(i, sw, ch) == s else -1)
    return ids


def par_of(r):
    return [r.sampling_rate, r.sample_width, r.channels]


class Pool:
    def __init__(self, core, rng, tier, fmt=None):
        self.core = core
        self.rng = rng
        self.regs = []
        self.snap = []
        sw, ch = fmt or rng.choice(FORMATS)
        self.sw, self.ch = sw, ch
        self.sr = rng.choice([8, 10, 100, 1000, 8000, 16000, 44100])
        cap = max_ids(sw, ch)
        base = 1
        for j in range(rng.randint(2, 4)):
            big = 30 if tier == "quick" else 200
            n = rng.choice([0, 1, 2, 3, rng.randint(0, 8), rng.randint(0, big)])
            n = max(0, min(n, cap - base - 1))
            sr = self.sr if (j < 2 or rng.random() < .7) else self.sr + 1
            self.add(core.AudioRegion(make_audio(n, sw, ch, first=base), sr, sw, ch))
            base += n
        # a region with other sample width / channel count (same bytes-per-sample family) for parameter errors
        if rng.random() < .5:
            osw, och = (ch, sw) if (ch in (1, 2, 4) and sw != ch) else (sw, ch + 1)
            self.other = core.AudioRegion(bytes(osw * och * 2), self.sr, osw, och)
        else:
            self.other = None

    def add(self, r):
        self.regs.append(r)
        self.snap.append((bytes(r), par_of(r)))

    def intact(self):
        return all(bytes(r) == s[0] and par_of(r) == s[1] for r, s in zip(self.regs, self.snap))

    def spec_pool(self):
        out = []
        for r in self.regs:
            ids = project(r, r.sample_width, r.channels) if (r.sample_width, r.channels) == (self.sw, self.ch) else [0] * len(r)
            out.append({"ids": ids, "par": par_of(r)})
        return out


def frac(t):
    f = Fraction(str(t))
    return f.numerator, f.denominator


def run_ops(core, rng, tier, nops):
    from auditok.exceptions import AudioParameterError
    P = Pool(core, rng, tier)
    if P.other is not None:
        P.add(P.other)
    pool0 = P.spec_pool()
    ev = []
    sw, ch = P.sw, P.ch

    def proj(r):
        if (r.sample_width, r.channels) == (sw, ch):
            return project(r, sw, ch)
        return [0] * len(r)

    def pick(same_fmt=True):
        c = [i for i, r in enumerate(P.regs) if not same_fmt or (r.sample_width, r.channels) == (sw, ch)]
        return rng.choice(c)

    def bound(n):
        return rng.choice([NONE, 0, 1, -1, n, -n, n + 1, -n - 1, rng.randint(-n - 3, n + 3), rng.randint(-10 ** 6, 10 ** 6) if rng.random() < .1 else rng.randint(0, max(1, n))])

    def pyb(x):
        return None if x == NONE else x
    cap = 150 if tier == "quick" else 400           # keeps the sequences TLC has to rebuild small
    for _ in range(nops):
        op = rng.choice(["slice", "slice", "sec", "sec", "ms", "len", "typeerr", "concat", "sum", "mul", "div", "join", "silence", "eq", "assign", "ragged"])
        if op in ("concat", "sum", "mul", "join") and max(len(x) for x in P.regs) > cap:
            op = "slice"
        e = {"op": op, "k": "ok"}
        try:
            if op == "slice":
                i = pick()
                r = P.regs[i]
                a, b = bound(len(r)), bound(len(r))
                res = r[pyb(a):pyb(b)]
                e.update(r=i + 1, a=a, b=b, ret=proj(res), par=par_of(res))
                P.add(res)
            elif op == "sec":
                i = pick()
                r = P.regs[i]
                sr = r.sampling_rate
                dur_ms = int(1000 * len(r) / sr) + 2

                def tval():
                    k = rng.choice([0, rng.randint(-dur_ms, dur_ms), rng.randint(0, dur_ms), round(1000 * rng.randint(0, len(r)) / sr)])
                    return k / 1000
                ta = tval()
                tb = None if rng.random() < .2 else tval()
                if rng.random() < .3:
                    ta = int(ta)           # ints are accepted too
                res = r.seconds[ta:tb] if rng.random() < .7 else r.sec[ta:tb]
                an, ad = frac(ta)
                bn, bd = (NONE, 1) if tb is None else frac(tb)
                e.update(r=i + 1, an=an, ad=ad, bn=bn, bd=bd, ret=proj(res), par=par_of(res))
                P.add(res)
            elif op == "ms":
                i = pick()
                r = P.regs[i]
                sr = r.sampling_rate
                dur_ms = int(1000 * len(r) / sr) + 2
                a = rng.choice([0, rng.randint(-dur_ms, dur_ms), rng.randint(0, dur_ms)])
                b = NONE if rng.random() < .2 else rng.choice([rng.randint(-dur_ms, dur_ms), rng.randint(0, dur_ms), dur_ms])
                res = r.millis[a:pyb(b)] if rng.random() < .6 else r.ms[a:pyb(b)]
                res2 = r.seconds[a / 1000:(None if b == NONE else b / 1000)]
                e.update(r=i + 1, a=a, b=b, ret=proj(res), par=par_of(res), same=bool(res == res2))
                P.add(res)
            elif op == "len":
                i = pick(False)
                r = P.regs[i]
                f = Fraction(r.duration).limit_denominator(10 ** 7)
                ok = len(r) == r.len
                e.update(r=i + 1, v=len(r) if ok else -1, num=f.numerator, den=f.denominator)
            elif op == "typeerr":
                i = pick()
                r = P.regs[i]
                what = rng.choice(["step", "float", "str", "int_index", "ms_float", "sec_str", "sec_step", "zero_float_start", "empty_str_start",
                                   "ms_zero_float_start", "empty_tuple_start", "stop_zero_float"])
                try:
                    if what == "step":
                        r[0:2:1]
                    elif what == "float":
                        r[0.5:2]
                    elif what == "str":
                        r["a":2]
                    elif what == "int_index":
                        r[1]
                    elif what == "ms_float":
                        r.millis[0.5:10]
                    elif what == "sec_str":
                        r.seconds["0":1]
                    elif what == "zero_float_start":
                        r[0.0:2]            # a bound of the wrong type is an error whatever its value
                    elif what == "empty_str_start":
                        r.seconds["":1]
                    elif what == "ms_zero_float_start":
                        r.millis[0.0:10]
                    elif what == "empty_tuple_start":
                        r[():2]
                    elif what == "stop_zero_float":
                        r[0:0.0]
                    else:
                        r.seconds[0:1:1]
                    e["k"] = "no error"
                except TypeError:
                    e["k"] = "TypeError"
                e["what"] = what
            elif op == "concat":
                i, j = pick(False), pick(False)
                e.update(r1=i + 1, r2=j + 1)
                res = P.regs[i] + P.regs[j]
                e.update(ret=proj(res), par=par_of(res))
                P.add(res)
            elif op == "sum":
                rs = [pick(rng.random() < .8) for _ in range(rng.randint(1, 3))]
                e.update(rs=[x + 1 for x in rs])
                res = sum(P.regs[x] for x in rs)
                e.update(ret=proj(res), par=par_of(res))
                P.add(res)
            elif op == "mul":
                i = pick()
                k = rng.choice([0, 1, 2, 3])
                if sum(len(x) for x in P.regs) > 4000:
                    k = 1
                res = P.regs[i] * k if rng.random() < .5 else k * P.regs[i]
                e.update(r=i + 1, n=k, ret=proj(res), par=par_of(res))
                P.add(res)
            elif op == "div":
                c = [i for i, r in enumerate(P.regs) if len(r) >= 1 and (r.sample_width, r.channels) == (sw, ch)]
                if not c:
                    continue
                i = rng.choice(c)
                r = P.regs[i]
                k = rng.choice([1, 2, 3, len(r), len(r) + 1, len(r) + 5, rng.randint(1, len(r) + 2)])
                if len(r) > 60 and k > 12:
                    k = rng.choice([2, 3, 5, 7, 12])        # many pieces of a long region: quadratic for the judge, nothing new for the code
                pieces = r / k
                if rng.random() < .5:
                    # the caller owns the returned list: whatever it does with it must not influence a later division
                    first = [proj(x) for x in pieces]
                    try:
                        pieces.reverse()
                        pieces.pop()
                    except Exception:
                        pass
                    twin = core.AudioRegion(bytes(r), *par_of(r))
                    pieces = (twin if rng.random() < .5 else r) / k
                    if [proj(x) for x in pieces] != first:
                        e["k"] = "a second division differs from the first"
                e.update(r=i + 1, n=k, pieces=[proj(x) for x in pieces])
                if any(par_of(x) != par_of(r) for x in pieces):
                    e["k"] = "parameters changed"
            elif op == "join":
                sep = pick(False)
                rs = [pick(rng.random() < .8) for _ in range(rng.randint(1, 3))]
                e.update(sep=sep + 1, rs=[x + 1 for x in rs])
                res = P.regs[sep].join(P.regs[x] for x in rs)
                e.update(ret=proj(res), par=par_of(res))
                P.add(res)
            elif op == "silence":
                sr = P.sr
                k = rng.choice([0, 1, rng.randint(0, 3000)])
                while k * sr > 1000 * cap:
                    k //= 2
                d = k / 1000
                exact = False
                if rng.random() < .4:
                    # a dyadic duration whose product with the rate is exactly k + 1/2: nothing is float-ambiguous, round() is half-to-even
                    j2 = (sr & -sr).bit_length()          # v2(sr) + 1
                    m = 2 * rng.randint(0, 6) + 1
                    if m * sr // (1 << j2) <= cap:
                        d = m / (1 << j2)
                        exact = True
                res = core.make_silence(d, sr, sw, ch)
                f_ = Fraction(d) if exact else Fraction(str(d))
                dn, dd = f_.numerator, f_.denominator
                e.update(dn=dn, dd=dd, ret=proj(res), par=par_of(res), exact=exact)
                P.add(res)
            elif op == "eq":
                i, j = pick(False), pick(False)
                if rng.random() < .3:
                    j = i
                if rng.random() < .3:
                    # an equal copy built independently, carrying another position on the time line: equality is about bytes and parameters only
                    cp = core.AudioRegion(bytes(P.regs[i]), *par_of(P.regs[i]), rng.choice([None, 0.0, 1.5, 7.25]))
                    if rng.random() < .5:
                        me = core.AudioRegion(bytes(P.regs[i]), *par_of(P.regs[i]), rng.choice([0.5, 2.0]))
                        e.update(r1=i + 1, r2=i + 1, v=bool(me == cp and not (me != cp) and cp == me and [me].count(cp) == 1))
                        raise StopIteration
                    e.update(r1=i + 1, r2=i + 1, v=bool(P.regs[i] == cp and not (P.regs[i] != cp)))
                else:
                    e.update(r1=i + 1, r2=j + 1, v=bool(P.regs[i] == P.regs[j]))
            elif op == "assign":
                i = pick(False)
                fld = rng.choice(["data", "sampling_rate", "sample_width", "channels"])
                try:
                    setattr(P.regs[i], fld, getattr(P.regs[i], fld))
                    e["k"] = "assignment accepted"
                except dataclasses.FrozenInstanceError:
                    e["k"] = "FrozenInstanceError"
            elif op == "ragged":
                bps = sw * ch
                if bps == 1:
                    continue
                try:
                    core.AudioRegion(bytes(bps * 2 + rng.randint(1, bps - 1)), P.sr, sw, ch)
                    e["k"] = "accepted"
                except AudioParameterError:
                    e["k"] = "AudioParameterError"
        except StopIteration:
            pass
        except AudioParameterError:
            e["k"] = "AudioParameterError"
        except Exception as exc:  # noqa
            e["k"] = type(exc).__name__
        e["intact"] = P.intact()
        # make every event carry every field the trace specification may read
        for f_, dv in (("ret", []), ("par", [0, 0, 0]), ("r", 1), ("r1", 1), ("r2", 1), ("rs", [1]), ("sep", 1), ("a", 0), ("b", 0), ("n", 1),
                       ("an", 0), ("ad", 1), ("bn", 0), ("bd", 1), ("v", 0), ("num", 0), ("den", 1), ("pieces", []), ("dn", 0), ("dd", 1), ("same", True), ("exact", False)):
            e.setdefault(f_, dv)
        ev.append(e)
    return {"pool": pool0, "ev": ev, "fmt": [P.sr, sw, ch]}


def check(prop, tier, replay=None):
    import_auditok()
    from auditok import core
    V = Verdict(prop, tier)
    wd = workdir("region_" + prop)
    rng = random.Random(SEED * 1000 + int(prop[1:]))
    V.assumptions += [
        "TLC/SANY/CommunityModules, CPython; the projection bytes<->sample ids (harness/audio.py, harness/region.py)",
        "view instants are decimals with three places (exact rationals in the specification); within 1/20 sample of a truncation / rounding "
        "switch point any index within one sample period is accepted, as the statement allows (float ambiguity O1/O4)",
    ]
    ml, mb = (4, 6) if tier == "quick" else (6, 9)
    cfg = f"CONSTANTS MaxLen = {ml} MaxBound = {mb} BPS = {{1, 2, 4, 6, 12}}\nSPECIFICATION Spec\nINVARIANT Agree\nCONSTRAINT Export\nCHECK_DEADLOCK FALSE\n"
    res = tlc.run("RegionMC", cfg, wd, name="mc", timeout=3000, mem="8g")
    tlc.require_ok(res, "leg M")
    V.add_model("M", res)
    if res["violated"] or not res["ok"]:
        raise MachineryError(f"leg M: {res['violated']} / {res['error']}\n" + tlc.counterexample(res, 40))
    V.cov["exhaustive"] = True
    if prop == "C17":
        # the division lengths for ALL region lengths and divisors (symbolic integers, a few seconds)
        detail, done = tlc.apalache("RegionInt", [("DivLemma", True), ("AllEqual", False)], wd, timeout=240 if tier == "quick" else 900)
        V.leg("unbounded", tool="apalache-mc 0.58", module="RegionInt", obligations=2, discharged=done, detail=detail,
              checker_cmd="apalache-mc check --inv=DivLemma|AllEqual --length=0 RegionInt.tla")
        V.cov["obligations"] = 2
        V.cov["discharged"] = done
    if prop == "C16" and (tier == "thorough" or os.environ.get("VERIF_APALACHE")):
        # the slicing agreement for ALL lengths, sample sizes and bounds (symbolic integers; about two minutes of Z3)
        detail, done = tlc.apalache("RegionInt", [("SliceAgree", True), ("WholeRegion", False)], wd, timeout=2400)
        V.leg("unbounded", tool="apalache-mc 0.58", module="RegionInt", obligations=2, discharged=done, detail=detail,
              checker_cmd="apalache-mc check --inv=SliceAgree|WholeRegion --length=0 RegionInt.tla")
        V.cov["obligations"] = 2
        V.cov["discharged"] = done
    cases = {}
    for j in res["json"]:
        cases.setdefault(canon([j["kind"], j["n"], j["bps"], j["a"], j["b"]]), j)
    cases = list(cases.values())
    # ---- leg R
    t0 = time.time()
    BPS2FMT = {1: (1, 1), 2: (2, 1), 4: (2, 2), 6: (2, 3), 12: (4, 3), 8: (4, 2)}
    nrun = 0
    for ci, c in enumerate(cases):
        kind = c["kind"]
        if (prop == "C16") != (kind in ("slice", "sec")):
            continue
        n = c["n"]
        try:
          if kind == "slice":
              sw, ch = BPS2FMT[c["bps"]]
              r = core.AudioRegion(make_audio(n, sw, ch), 16000, sw, ch)
              a, b = c["a"], c["b"]
              got = r[(None if a == NONE else a):(None if b == NONE else b)]
              exp = list(range(c["res"][0] + 1, c["res"][1] + 1))
              ok = project(got, sw, ch) == exp and par_of(got) == [16000, sw, ch]
              desc = f"AudioRegion({n} samples, sw={sw}, ch={ch})[{a if a != NONE else ''}:{b if b != NONE else ''}]"
          elif kind == "sec":
              sw, ch = FORMATS[ci % len(FORMATS)]
              r = core.AudioRegion(make_audio(n, sw, ch), 8, sw, ch)      # rate 8: instants a/64 s are exact floats, x = a/8 samples
              a, b = c["a"], c["b"]
              ta, tb = a / 64, (None if b == NONE else b / 64)
              got = r.seconds[ta:tb]
              exp = list(range(c["res"][0] + 1, c["res"][1] + 1))
              ok = project(got, sw, ch) == exp
              if not ok and b != NONE and b % 8 == 4:
                  # the stop instant lies exactly between two samples: "nearest" does not say which; either neighbour is accepted
                  lo = c["res"][0]
                  for gb in (b // 8, b // 8 + 1):
                      hi = max(lo, min(gb, n) if gb >= 0 else max(gb + n, 0))
                      if project(got, sw, ch) == list(range(lo + 1, hi + 1)):
                          ok = True
              desc = f"AudioRegion({n} samples, sr=8, sw={sw}, ch={ch}).seconds[{ta}:{tb}]"
          else:
              sw, ch = FORMATS[ci % len(FORMATS)]
              r = core.AudioRegion(make_audio(n, sw, ch), 10, sw, ch)
              pieces = r / c["a"]
              got = [len(x) for x in pieces]
              exp = list(c["res"])
              ok = got == exp and sum((project(x, sw, ch) for x in pieces), []) == list(range(1, n + 1)) and bytes(r) == make_audio(n, sw, ch)
              desc = f"AudioRegion({n} samples) / {c['a']}"
        except MachineryError:
            raise
        except Exception as exc:  # noqa -- every exported case has bounds the statement covers: the code must not raise
            nrun += 1
            V.violation({"case": c}, f"AudioRegion case {c} ({kind}): the code raised {type(exc).__name__}: {str(exc)[:160]} "
                                     f"where the specification gives {c['res']}", {"leg": "R", "case": c, "raised": type(exc).__name__})
            continue
        nrun += 1
        if not ok:
            V.violation({"case": c}, f"{desc} -> {project(got, sw, ch) if kind != 'div' else got}; specification: {exp}", {"leg": "R", "case": c})
    V.cov["traces_validated_against_impl"] += nrun
    V.count(nrun, (canon(c) for c in cases if ((prop == "C16") == (c["kind"] in ("slice", "sec"))) and c["n"] > 0))
    V.leg("R", cases=nrun, wall_s=round(time.time() - t0, 2))
    V.sample({"leg": "R", "case": next(c for c in cases if ((prop == "C16") == (c["kind"] in ("slice", "sec"))) and c["n"] > 2)})
    # ---- leg T
    t0 = time.time()
    traces = [run_ops(core, rng, tier, rng.randint(5, 30)) for _ in range(300 if tier == "quick" else 3000)]
    tcfg = "SPECIFICATION TSpec\nCONSTRAINT Mon\nPOSTCONDITION Post\nCHECK_DEADLOCK FALSE\n"
    rows, st = judge("RegionTrace", tcfg, traces, wd, "rg", strip=lambda x: {"pool": x["pool"], "ev": x["ev"]},
                     weight=lambda x: sum(len(e["ret"]) + 5 for e in x["ev"]))
    V.cov["states"] += st
    for tr, row in zip(traces, rows):
        if row[2] == row[3]:
            continue
        i = row[2] - 1
        e = tr["ev"][i]
        owner = "C16" if e["op"] in C16_OPS else "C17"
        short = {k: v for k, v in e.items() if k in ("op", "k", "r", "r1", "r2", "rs", "sep", "a", "b", "n", "an", "ad", "bn", "bd", "v", "what", "intact", "same", "dn", "dd")}
        if owner == prop or (not e["intact"] and prop == "C17"):
            V.violation({"pool": [[len(p["ids"]), p["par"]] for p in tr["pool"]], "ops": [[x["op"], x.get("r"), x.get("a"), x.get("b"), x.get("n")] for x in tr["ev"][:i + 1]]},
                        f"AudioRegion operation #{i} {short} on pool {[(len(p['ids']), p['par']) for p in tr['pool']]} returned {str(e['ret'])[:120]} "
                        f"{str(e['pieces'])[:120] if e['op'] == 'div' else ''}: not what Region.tla prescribes", {"leg": "T", "trace": tr, "event": i})
        else:
            V.divergence({"event": short, "owner": owner})
    V.cov["traces_validated_against_impl"] += len(traces)
    V.count(len(traces), (canon([t_["pool"], [[e["op"], e["r"], e["a"], e["b"], e["n"], e["rs"]] for e in t_["ev"]]]) for t_ in traces))
    V.leg("T", traces=len(traces), events=sum(len(t_["ev"]) for t_ in traces), wall_s=round(time.time() - t0, 2))
    big = traces[0]
    V.sample({"leg": "T", "fmt": big["fmt"], "pool": [[len(p["ids"]), p["par"]] for p in big["pool"]],
              "ops": [{k: v for k, v in e.items() if k in ("op", "k", "r", "a", "b", "n", "rs", "sep")} for e in big["ev"][:12]]})
    return V.finish(
        rule="leg M: every case of the bound (slice: length x bytes-per-sample x start x stop; div: length x divisor; views: instants on an "
             "eighth-of-a-sample grid); leg R: one implementation test per case on real regions; leg T: seeded operation sequences over a pool "
             "of real regions judged by TLC. distinct = canonical case / (pool, operation sequence); non-trivial = non-empty region involved")
