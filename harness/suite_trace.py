"""pytest plugin (loaded with -p harness.suite_trace): records every StreamTokenizer.tokenize() call the REPOSITORY'S OWN
tests make as a trace in the vocabulary of TokenizerObsTrace (R / V / T / EOS / END), without touching the tests or the
library source: the bound methods are wrapped from outside at import time.  The traces are written to $VERIF_SUITE_TRACE
when the session ends; harness/tok.py has TLC judge them (the suite's executions become specification behaviours whose
every state is checked by the property monitors, not only by the tests' own assertions)."""
import json
import os

TRACES = []


def _install():
    from auditok import core
    orig = core.StreamTokenizer.tokenize
    if getattr(orig, "_verif_wrapped", False):
        return

    def tokenize(self, data_source, callback=None, generator=False):
        ev = []
        idx = {"n": 0}
        handed = []
        real_read = data_source.read
        real_valid = self._is_valid

        class Src:
            def read(s_):
                f = real_read()
                if f is None:
                    ev.append({"e": "EOS"})
                else:
                    handed.append(f)
                    ev.append({"e": "R", "v": None})        # validity filled in when the validator is asked
                return f

        def is_valid(f):
            v = bool(real_valid(f))
            ev.append({"e": "V", "v": v})
            for e in reversed(ev[:-1]):
                if e["e"] == "R":
                    if e["v"] is None:
                        e["v"] = v
                    break
            return v

        def log(data, s, t):
            fr = list(range(s, s + len(data))) if all(0 <= s + k < len(handed) and handed[s + k] is data[k] or (0 <= s + k < len(handed) and handed[s + k] == data[k]) for k in range(len(data))) else [-1] * len(data)
            ev.append({"e": "T", "s": s, "t": t, "fr": fr})
        p = {"min": self.min_length, "max": self.max_length, "sil": self.max_continuous_silence, "imin": self.init_min,
             "isil": self.init_max_silent, "strict": bool(self._strict_min_length), "drop": bool(self._drop_trailing_silence)}
        rec = {"p": p, "mode": "gen" if generator else ("cb" if callback else "list"), "peer": [], "ev": ev, "usepeer": False}
        self._is_valid = is_valid
        try:
            if callback:
                def cb(data, s, t):
                    log(data, s, t)
                    callback(data, s, t)
                ret = orig(self, Src(), callback=cb)
                ev.append({"e": "END"})
                TRACES.append(rec)
                return ret
            if generator:
                def gen():
                    for data, s, t in orig(self, Src(), generator=True):
                        log(data, s, t)
                        yield data, s, t
                    ev.append({"e": "END"})
                    TRACES.append(rec)
                return gen()
            out = orig(self, Src())
            for data, s, t in out:
                log(data, s, t)
            ev.append({"e": "END"})
            TRACES.append(rec)
            return out
        finally:
            if not generator:
                self._is_valid = real_valid
    tokenize._verif_wrapped = True
    core.StreamTokenizer.tokenize = tokenize


def pytest_configure(config):
    _install()


def pytest_sessionfinish(session, exitstatus):
    path = os.environ.get("VERIF_SUITE_TRACE")
    if not path:
        return
    good = []
    for t in TRACES:
        if all(e.get("v") is not None for e in t["ev"] if e["e"] == "R") and isinstance(t["p"]["min"], int):
            t["peer"] = [[e["s"], e["t"]] for e in t["ev"] if e["e"] == "T"]
            good.append(t)
    with open(path, "w") as f:
        json.dump(good, f)
