"""Shared plumbing: paths, seeds, work directories, verdict bookkeeping, evidence, known findings.

Exit codes of a check: 0 = property held on everything explored (KNOWN-FINDING lines allowed),
1 = at least one VIOLATION line, 2 = machinery failure (nothing is claimed).
"""
import atexit
import hashlib
import json
import os
import shutil
import sys
import tempfile
import time

VERIF = os.path.dirname(os.path.dirname(os.path.abspath(__file__)))
SPEC = os.path.join(VERIF, "spec")
OUT = os.path.join(VERIF, "out")
WORKROOT = os.path.join(OUT, "work")
# VERIF_EVIDENCE_DIR: used by tools/seeded.py so that runs against seeded mutants never overwrite the
# evidence / replay files of the real tree
_EVD = os.environ.get("VERIF_EVIDENCE_DIR")
REPLAYS = os.path.join(_EVD, "replays") if _EVD else os.path.join(OUT, "replays")
EVIDENCE = _EVD or os.path.join(VERIF, "evidence")
KNOWN = os.path.join(VERIF, "known_findings.txt")
REPO = os.environ.get("AUDITOK_REPO", "/repo")
SEED = int(os.environ.get("VERIF_SEED", "20260926") or 0)
PY = "/venv/bin/python"
NCPU = os.cpu_count() or 4
MAX_REPORT = int(os.environ.get("VERIF_MAX_REPORT", "8"))

os.environ.setdefault("PYTHONDONTWRITEBYTECODE", "1")
os.environ.setdefault("PYTHONHASHSEED", "0")
sys.dont_write_bytecode = True


class MachineryError(Exception):
    """The checker itself failed (TLC crashed, parse error ...): exit 2, nothing is claimed."""


def import_auditok():
    """Import auditok from the working tree under test (never from an installed copy)."""
    if REPO not in sys.path:
        sys.path.insert(0, REPO)
    import auditok  # noqa

    got = os.path.dirname(os.path.dirname(os.path.abspath(auditok.__file__)))
    if os.path.realpath(got) != os.path.realpath(REPO):
        raise MachineryError(f"auditok imported from {got}, expected {REPO}")
    return auditok


_workdirs = []


def workdir(tag):
    os.makedirs(WORKROOT, exist_ok=True)
    d = tempfile.mkdtemp(prefix=tag + "_", dir=WORKROOT)
    _workdirs.append(d)
    return d


def _cleanup():
    if os.environ.get("VERIF_KEEP"):
        return
    for d in _workdirs:
        shutil.rmtree(d, ignore_errors=True)


atexit.register(_cleanup)


def canon(obj):
    return json.dumps(obj, sort_keys=True, separators=(",", ":"))


def key_of(obj):
    return hashlib.sha1(canon(obj).encode()).hexdigest()[:12]


def load_known():
    """known_findings.txt: 'open: property=<ID> key=<k> <text>' suppress matching violations
    (printed as KNOWN-FINDING); 'fixed: property=<ID> <commit> <text>' match nothing."""
    res = {}
    if not os.path.exists(KNOWN):
        return res
    for line in open(KNOWN):
        line = line.strip()
        if not line.startswith("open:"):
            continue
        parts = line[5:].split()
        d = {}
        rest = []
        for w in parts:
            if "=" in w and w.split("=", 1)[0] in ("property", "key") and w.split("=", 1)[0] not in d:
                k, v = w.split("=", 1)
                d[k] = v
            else:
                rest.append(w)
        if "property" in d and "key" in d:
            res[(d["property"], d["key"])] = " ".join(rest)
    return res


class Verdict:
    """Collects per-leg results of one check run and turns them into output + evidence."""

    def __init__(self, prop, tier, level="model_checking"):
        self.prop = prop
        self.tier = tier
        self.level = level
        self.t0 = time.time()
        self.violations = {}  # key -> (what, replay payload)
        self.known_hits = {}
        self.divergences = 0
        self.divergence_samples = []
        self.cov = {
            "states": 0,
            "transitions": 0,
            "traces_validated_against_impl": 0,
            "samples": [],
            "legs": {},
            "exhaustive": False,
        }
        self.assumptions = []
        self.nontrivial = set()
        self.evaluations = 0
        self.known = load_known()

    # ---- recording -------------------------------------------------------------------
    def leg(self, name, **info):
        self.cov["legs"].setdefault(name, {}).update(info)

    def add_model(self, name, res):
        """res: result dict of tlc.run()"""
        self.cov["states"] += res.get("distinct", 0)
        self.cov["transitions"] += res.get("generated", 0)
        info = {k: res.get(k) for k in ("distinct", "generated", "depth", "wall_s", "constants", "cmd") if k in res}
        if res.get("actions"):
            info["action_counts"] = res["actions"]
        self.leg(name, **info)

    def count(self, n_eval, keys=()):
        self.evaluations += n_eval
        for k in keys:
            self.nontrivial.add(k)

    def sample(self, s, cap=6):
        if len(self.cov["samples"]) < cap:
            self.cov["samples"].append(s)

    def violation(self, key_obj, what, payload):
        """key_obj: canonical identification of the failing input/call site/history."""
        k = key_of(key_obj)
        if (self.prop, k) in self.known:
            self.known_hits[k] = self.known[(self.prop, k)] or what
            return
        if k not in self.violations:
            self.violations[k] = (what, payload)

    def divergence(self, sample):
        self.divergences += 1
        if len(self.divergence_samples) < 5:
            self.divergence_samples.append(sample)

    # ---- finishing -------------------------------------------------------------------
    def finish(self, rule, extra=None):
        os.makedirs(REPLAYS, exist_ok=True)
        os.makedirs(EVIDENCE, exist_ok=True)
        for k, txt in sorted(self.known_hits.items()):
            print(f"KNOWN-FINDING: property={self.prop} key={k} {txt}")
        lines = []
        # report the smallest failing inputs first; cap the number of VIOLATION lines (all are counted)
        only = os.environ.get("VERIF_REPLAY_KEY")
        if only:
            self.violations = {k: v for k, v in self.violations.items() if k == only}
            print(f"# replay: violation {only} " + ("reproduced" if self.violations else "NOT reproduced"))
        ranked = sorted(self.violations.items(), key=lambda kv: (len(canon(kv[1][1])), kv[0]))
        if len(ranked) > MAX_REPORT:
            print(f"# {self.prop}: {len(ranked)} distinct failing inputs; reporting the {MAX_REPORT} smallest")
        for k, (what, payload) in ranked[:MAX_REPORT]:
            path = os.path.join(REPLAYS, f"{self.prop}_{k}.json")
            payload = dict(payload)
            payload.update({"property": self.prop, "key": k, "what": what, "seed": SEED, "tier": self.tier,
                            "rerun": f"./check {self.prop} --replay {path}"})
            with open(path, "w") as f:
                json.dump(payload, f, indent=1, default=str)
            lines.append(f"VIOLATION property={self.prop} replay={path}")
            print(f"# {self.prop}: {what}")
        for ln in lines:
            print(ln)
        if self.divergences:
            print(f"DIVERGENCE property={self.prop} count={self.divergences} "
                  f"(observed executions that are not behaviours of the implementation-shaped "
                  f"specification although every {self.prop} monitor holds; informational)")
        cov = self.cov
        cov["evaluations"] = self.evaluations
        cov["distinct_nontrivial"] = len(self.nontrivial)
        cov["rule"] = rule
        cov["divergences"] = self.divergences
        if self.divergence_samples:
            cov["divergence_samples"] = self.divergence_samples
        cov["known_findings_hit"] = len(self.known_hits)
        if extra:
            cov.update(extra)
        if not cov["samples"]:
            cov["samples"] = ["(no sample recorded)"]
        ev = {
            "property_id": self.prop,
            "tier": self.tier,
            "seed": SEED,
            "level": self.level,
            "coverage": cov,
            "assumptions": self.assumptions,
            "wall_s": round(time.time() - self.t0, 2),
            "violations": len(self.violations),
        }
        if not only:      # a replay does not rewrite the evidence of the full run
            with open(os.path.join(EVIDENCE, f"{self.prop}.json"), "w") as f:
                json.dump(ev, f, indent=1, default=str)
        st = cov["states"]
        print(f"{self.prop} [{self.tier}] states={st} transitions={cov['transitions']} "
              f"impl_traces={cov['traces_validated_against_impl']} evaluations={self.evaluations} "
              f"nontrivial={len(self.nontrivial)} violations={len(self.violations)} "
              f"known={len(self.known_hits)} divergences={self.divergences} wall={ev['wall_s']}s")
        return 1 if self.violations else 0
