"""Schema validation of MANIFEST.json and evidence files (run with python3-vt, which has jsonschema)."""
import glob, json, sys
import jsonschema
ok = True
try:
    jsonschema.validate(json.load(open('/verif/MANIFEST.json')), json.load(open('/root/.vp/MANIFEST.schema.json')))
except Exception as e:
    ok = False; print("MANIFEST invalid:", str(e)[:500])
sch = json.load(open('/root/.vp/EVIDENCE.schema.json'))
for f in sorted(glob.glob('/verif/evidence/*.json')):
    try:
        jsonschema.validate(json.load(open(f)), sch)
    except Exception as e:
        ok = False; print(f, "invalid:", str(e)[:500])
print("valid" if ok else "INVALID")
sys.exit(0 if ok else 1)
