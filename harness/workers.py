"""Worker pipeline checks: C12 (every observer gets every detection once, in order; all threads end),
C13 (saved stream / joined events / region files are byte-exact), C14 (stop at any moment).

leg M : TLC on WorkersMC: every interleaving of main, tokenizer thread, observers and the stream-saver
        writer for the tier's configurations, timeouts firing whenever a thread waits on an empty inbox,
        a stop request enabled in every running state; invariants C12Safe / C13Safe / C14Safe, deadlock
        check, Termination (<>[]AllDone) under weak fairness of every thread's non-timeout steps.
leg R : TLC -simulate behaviours of the same module are turned into schedules (which thread moves,
        deliver or timeout) and the REAL threads are driven along them under the controller (harness/sched.py).
leg T : the controller explores schedules on its own (random, priority-based, timeout storms, slow source,
        slow observers, stop injected at every step index of a base schedule) on larger inputs.
Every controlled execution is judged twice by TLC: WorkersObs (free observation layer, monitors C12/C13/C14
on what was observed at the end -> VIOLATION) and WorkersTrace (every scheduling point must be the Workers
action of that thread -> DIVERGENCE only).
"""
import json
import math
import os
import random
import re
import shutil
import sys
import tempfile
import threading
import time
import wave
from concurrent.futures import ProcessPoolExecutor

from . import tlc
from .common import NCPU, REPO, SEED, MachineryError, Verdict, canon, import_auditok, workdir
from .judge import judge

U = 10000


def match_ids(audios, detregs):
    """ids of the detections whose audio was seen, in the order seen: each piece of audio is matched with the smallest not yet used
    id of a detection holding exactly that audio (-1: no such detection)."""
    from collections import defaultdict, deque
    by_audio = defaultdict(deque)
    for i_, v_ in sorted(detregs.items()):
        by_audio[v_].append(i_)
    out = []
    for a in audios:
        q = by_audio.get(a) if a is not None else None
        out.append(q.popleft() if q else -1)
    return out


# ------------------------------------------------------------------------------------------------
# one controlled execution of the real pipeline
# ------------------------------------------------------------------------------------------------
def scenario(sc, tmproot, chooser_factory):
    """sc: dict(pat, B, sr, sw, ch, p=(mn,mx,sl,drop,strict), obs=[kinds], saver, cache_blocks, stop_after, tail, seed,
    silence (joiner)).  Returns (impl_trace, obs_record)."""
    from auditok import workers as W, util, io as aio, core
    from . import sched
    from .split import synth, AMP
    sched.install(W)
    S = sched.new_run(None)
    rng = random.Random(sc["seed"])
    S.chooser = chooser_factory(rng, sc)
    pat, B, sr, sw, ch = sc["pat"], sc["B"], sc["sr"], sc["sw"], sc["ch"]
    mn, mx, sl, drop, strict = sc["p"]
    energy = sc.get("validator") == "energy" and ch > 1
    data, nsamp = synth(pat, B, sc.get("tail", B), sw, ch, quiet_channels=(1,) if energy else ())
    bps = sw * ch
    blocks = []
    nreads = [0]
    if sc.get("crash_at") is not None:
        threading.excepthook = lambda a: None          # the injected exception ends the tokenizer thread: no traceback on stderr
        sys.unraisablehook = lambda *a: None           # nor from finalizers of abandoned (hung) workers

    class Src(aio.BufferAudioSource):
        def read(self_, size):
            sched.SCHED.point("src_read")
            nreads[0] += 1
            if sc.get("crash_at") is not None and nreads[0] > sc["crash_at"]:
                sched.SCHED.note(pt="src_crash")
                raise RuntimeError("device error (injected)")
            d = super().read(size)
            if d is not None:
                blocks.append(d)
            sched.SCHED.note(pt="src_read", got=(len(d) // bps if d else 0))
            return d
    reader = util.AudioReader(Src(data, sr, sw, ch), block_dur=B / sr)
    lo = AMP[sw][1]
    judged = [0]

    def val(frame):
        v = any(abs(int.from_bytes(frame[o:o + sw], "little", signed=True)) > lo for o in range(0, len(frame), sw))
        judged[0] += 1
        sched.SCHED.note(pt="V", v=bool(v))
        return v
    tmp = tempfile.mkdtemp(dir=tmproot)
    got = {}
    printed = []
    observers = []
    kinds = sc["obs"]

    class Rec(W.Worker):
        def __init__(s_, k):
            s_.k = k
            got[k] = []
            super().__init__(timeout=0.01)

        def _process_message(s_, m):
            got[s_.k].append(m[0])
    regtpl = os.path.join(tmp, "det_{id}_{start:.3f}_{end:.3f}_{duration}.wav")
    loglines = []
    logger = None
    if sc.get("log"):
        import logging

        class ListHandler(logging.Handler):
            def emit(s_, record):
                loglines.append((sched.SCHED.me() if sched.SCHED is not None else None, record.getMessage()))
        logger = logging.Logger("verif-run")          # not registered with the manager: private to this run
        logger.setLevel(logging.INFO)
        logger.addHandler(ListHandler())
    lkw = {"logger": logger} if logger is not None else {}
    for i, k in enumerate(kinds):
        if k == "rec":
            o = Rec(i + 1)
        elif k == "print":
            o = W.PrintWorker("{id} {start} {end} {duration}", "%S")
        elif k == "regsave":
            o = W.RegionSaverWorker(regtpl, **lkw)
        elif k == "joiner":
            o = W.AudioEventsJoinerWorker(sc["silence"], os.path.join(tmp, f"joined{i}.wav"), None, sr, sw, ch)
        elif k == "player":
            class MockPlayer:
                def play(self_, d, progress_bar=False, **kw):
                    played.append(bytes(d))
            o = W.PlayerWorker(MockPlayer(), progress_bar=False, **lkw)
        elif k == "command":
            o = W.CommandLineWorker("consume {file}", **lkw)
        o._ctl_name = "o%d" % (i + 1)
        S.qnames[id(sched.inbox_of(o))] = o._ctl_name
        observers.append(o)
    W.print = lambda text: printed.append(text)
    played = []
    commands = []

    # the user's command of CommandLineWorker is a real executable (harness/bin/consume): it notes that it ran and keeps a copy of the file it
    # was given, so nothing depends on HOW the worker starts it (os.system, subprocess, a shell)
    class OsShim:
        """auditok.workers' view of the os module: a command started with os.system() is recorded in-process (deterministic, no child
        process); any other way of starting it reaches the real executable below."""
        def __getattr__(self_, name):
            return getattr(os, name)

        def system(self_, cmd):
            f = cmd.split(" ", 1)[1] if " " in cmd else ""
            try:
                with wave.open(f) as wf:
                    commands.append((cmd.split(" ")[0], wf.readframes(-1), (wf.getframerate(), wf.getsampwidth(), wf.getnchannels())))
            except Exception:  # noqa
                commands.append((cmd, None, None))
            try:
                os.remove(f)
            except OSError:
                pass
            return 0
    real_os_ = getattr(W, "os", None)
    if "command" in kinds and real_os_ is not None:
        W.os = OsShim()
    consume_dir = os.path.join(tmp, "consumed")
    if "command" in kinds:
        os.makedirs(consume_dir, exist_ok=True)
        open(os.path.join(consume_dir, "log"), "w").close()
        os.environ["VERIF_CONSUME_DIR"] = consume_dir
        bindir = os.path.join(os.path.dirname(os.path.abspath(__file__)), "bin")
        if bindir not in os.environ.get("PATH", "").split(":"):
            os.environ["PATH"] = bindir + ":" + os.environ.get("PATH", "")
    fn = os.path.join(tmp, "stream.wav")
    src = reader
    saver = None
    if sc["saver"]:
        cache_sec = sc["cache_blocks"] * B / sr - (0.4 * B / sr if sc["cache_blocks"] > 0 else 0)
        saver = W.StreamSaverWorker(reader, fn, cache_size_sec=max(0.0, cache_sec))
        saver._ctl_name = "saver"
        S.qnames[id(sched.inbox_of(saver))] = "saver"
        src = saver
    w = B / sr
    vkw = {"validator": val}
    patched_val = None
    if energy:
        # split() builds the energy validator itself from the keyword arguments the worker forwards; every alias spelling
        # must reach it (C12: the worker's detections equal what split() returns for the same parameters)
        from .split import ETH
        Base = util.AudioEnergyValidator
        patched_val = Base.is_valid

        def logged_is_valid(self_, d):
            v = bool(patched_val(self_, d))
            judged[0] += 1
            sched.SCHED.note(pt="V", v=v)
            return v
        Base.is_valid = logged_is_valid
        vkw = {sc.get("eth_name", "energy_threshold"): ETH}
        if sc.get("uc", "absent") != "absent":
            vkw[sc.get("uc_name", "use_channel")] = sc["uc"]
    tw = W.TokenizerWorker(src, observers, min_dur=(mn - 0.5) * w, max_dur=(mx + 0.5) * w, max_silence=(sl + 0.5) * w,
                           drop_trailing_silence=drop, strict_min_dur=strict, **vkw, **lkw)
    tw._ctl_name = "tok"
    S.qnames[id(sched.inbox_of(tw))] = "tok"
    stop_after = sc["stop_after"]

    def main():
        if saver is not None:
            saver.start()
        tw.start_all()
        if stop_after is None:
            tw.join()
            for o in observers:
                o.join()
            if saver is not None:
                saver.join()
        elif stop_after == "gate":
            sched.SCHED.point("stopgate")       # follow mode: released exactly when the behaviour's main requests the stop
            sched.SCHED.note(pt="idle")
            tw.stop_all()
        else:
            for _ in range(stop_after):
                sched.SCHED.point("idle")
                sched.SCHED.note(pt="idle")
            tw.stop_all()
    try:
        status = sched.run_main(main, max_steps=sc.get("max_steps", 4000))
    finally:
        if patched_val is not None:
            util.AudioEnergyValidator.is_valid = patched_val
    # ---- projection of what can be observed at the end -----------------------------------------
    nread = len(blocks)
    heard = not (energy and sc.get("uc") in (1, -1))       # channel 1 is the quiet one
    stream = [bool(pat[k]) and heard if k < len(pat) else False for k in range(nread)]
    dets = []
    for d in tw.detections:
        first = round(d.start * sr)
        n = round((d.end - d.start) * sr)
        if abs(d.start * sr - first) > 1e-6 or first % B or n < 1:
            dets.append([d.id, -1, -1])
        else:
            dets.append([d.id, first // B, first // B + -(-n // B) - 1])
    processed = []
    printed_ok = True
    regfiles_ok = True
    joined_ok = True
    detregs = {}
    for d in tw.detections:
        a = round(d.start * sr) * bps
        b = round(d.end * sr) * bps
        detregs[d.id] = data[a:b]
    if "command" in kinds:
        try:
            lines = [x for x in open(os.path.join(consume_dir, "log")).read().split("\n") if x]
        except OSError:
            lines = []
        for j, ln in enumerate(lines):
            try:
                with wave.open(os.path.join(consume_dir, f"{j}.wav")) as wf:
                    commands.append((ln.split(" ")[0] if ln.endswith(" present") else "missing", wf.readframes(-1), (wf.getframerate(), wf.getsampwidth(), wf.getnchannels())))
            except Exception:  # noqa
                commands.append((ln, None, None))
    for i, k in enumerate(kinds):
        if k == "rec":
            processed.append(got[i + 1])
        elif k == "print":
            ids = []
            det_by_id = {}
            for x in tw.detections:
                det_by_id.setdefault(x.id, x)
            for line in printed:
                m = re.match(r"^(\d+) (\S+) (\S+) (\S+)$", line)
                if not m:
                    printed_ok = False
                    continue
                ids.append(int(m.group(1)))
                dd = det_by_id.get(int(m.group(1)))
                if dd is None or [m.group(2), m.group(3), m.group(4)] != ["{:.3f}".format(v) for v in (dd.start, dd.end, dd.duration)]:
                    printed_ok = False
            processed.append(ids)
        elif k == "regsave":
            names = sorted(f for f in os.listdir(tmp) if f.startswith("det_"))
            ids = []
            expected = {}
            for d in tw.detections:
                dur = len(detregs[d.id]) / (sr * sw * ch)
                expected[os.path.basename(regtpl.format(id=d.id, start=d.start, end=d.end, duration=dur))] = d.id
            for f in names:
                if f not in expected:
                    regfiles_ok = False
                    m = re.match(r"det_(\d+)_", f)
                    ids.append(int(m.group(1)) if m else -1)
                    continue
                ids.append(expected[f])
                try:
                    with wave.open(os.path.join(tmp, f)) as wf:
                        okp = (wf.getframerate(), wf.getsampwidth(), wf.getnchannels()) == (sr, sw, ch)
                        if not okp or wf.readframes(-1) != detregs[expected[f]]:
                            regfiles_ok = False
                except Exception:
                    regfiles_ok = False
            processed.append(sorted(ids))
        elif k == "player":
            # what was played, in order, must be the detections' audio in order
            processed.append(match_ids(played, detregs))
        elif k == "command":
            processed.append(match_ids([d_ if (name == "consume" and par == (sr, sw, ch)) else None for name, d_, par in commands], detregs))
        elif k == "joiner":
            # joiner: the ids are not observable; what it wrote is
            nsil = round(Fraction_round(sc["silence"], sr))
            exp = (b"\0" * (nsil * bps)).join(detregs[d.id] for d in tw.detections)
            if status == "done" and stop_after is None and not energy:
                # "... i.e. the audio split_and_join_with_silence() returns" for the same input and parameters
                api = core.split_and_join_with_silence(data, sc["silence"], min_dur=(mn - 0.5) * w, max_dur=(mx + 0.5) * w, max_silence=(sl + 0.5) * w,
                                                       drop_trailing_silence=drop, strict_min_dur=strict, analysis_window=w,
                                                       validator=lambda fr: any(abs(int.from_bytes(fr[o_:o_ + sw], "little", signed=True)) > lo for o_ in range(0, len(fr), sw)),
                                                       sampling_rate=sr, sample_width=sw, channels=ch)
                if (bytes(api) if api is not None else b"") != exp:
                    joined_ok = False
            try:
                with wave.open(os.path.join(tmp, f"joined{i}.wav")) as wf:
                    okp = (wf.getframerate(), wf.getsampwidth(), wf.getnchannels()) == (sr, sw, ch)
                    if not okp or wf.readframes(-1) != exp:
                        joined_ok = False
            except Exception:
                joined_ok = False
            processed.append([d.id for d in tw.detections] if joined_ok else [-1])
    log = []
    if logger is not None:
        det_by = {}
        for d in tw.detections:
            det_by.setdefault(d.id, d)
        tag_of = {"regsave": "SAVE", "player": "PLAY", "command": "COMMAND"}
        who_of = {tag_of[k]: i + 1 for i, k in enumerate(kinds) if k in tag_of}
        cmd_seen = 0
        for th, line in loglines:
            m = re.match(r"^\[(DET|SAVE|PLAY|COMMAND)\]: Detection (\d+)(.*)$", line, re.S)
            if not m:
                log.append([-1, -1, 0])
                continue
            tag, did, rest = m.group(1), int(m.group(2)), m.group(3)
            d = det_by.get(did)
            ok = d is not None
            if tag == "DET":
                # the duration is that of the region the observers receive (samples / rate), not whatever the worker's own record says
                dur_ = len(detregs.get(did, b"")) / (sr * sw * ch)
                ok = ok and rest == " (start: {:.3f}, end: {:.3f}, duration: {:.3f})".format(d.start, d.end, dur_) and th == "tok"
                log.append([0, did, int(ok)])
                continue
            if tag == "SAVE" and ok:
                dur = len(detregs[did]) / (sr * sw * ch)
                ok = rest == " saved as '{}'".format(regtpl.format(id=did, start=d.start, end=d.end, duration=dur))
            elif tag == "PLAY":
                ok = ok and rest == " played"
            elif tag == "COMMAND" and ok:
                ok = cmd_seen < len(commands) and rest.startswith(" command: 'consume ") and rest.endswith("'")
                cmd_seen += 1
            ok = ok and tag in who_of and th == "o%d" % who_of[tag]
            log.append([who_of.get(tag, -1), did, int(bool(ok))])
    file_ids = []
    fvalid = True
    if saver is not None:
        try:
            with wave.open(fn) as wf:
                fvalid = (wf.getframerate(), wf.getsampwidth(), wf.getnchannels()) == (sr, sw, ch)
                fb = wf.readframes(-1)
            off = 0
            for k, blk in enumerate(blocks):
                if off >= len(fb):
                    break
                if fb[off:off + len(blk)] == blk:
                    file_ids.append(k)
                    off += len(blk)
                else:
                    file_ids.append(-1)
                    break
            if off < len(fb) and (not file_ids or file_ids[-1] != -1):
                file_ids.append(-1)
        except Exception:
            fvalid = False
    alive = len(S.alive)
    p = {"min": mn, "max": mx, "sil": sl, "imin": 0, "isil": 0, "strict": bool(strict), "drop": bool(drop),
         "nobs": len(kinds), "saver": bool(sc["saver"]), "cache": max(1, sc["cache_blocks"]), "stop": stop_after is not None,
         "joiner": (kinds.index("joiner") + 1) if "joiner" in kinds else 0}
    stopped = any(e["th"] == "main" and e["pt"] == "put" and e.get("q") == "tok" for e in S.events)
    obs_rec = {"p": p, "stream": stream, "judged": judged[0], "dets": dets, "processed": processed, "status": status, "alive": alive,
               "stopped": stopped, "file": file_ids, "fvalid": bool(fvalid), "joined_ok": joined_ok, "regfiles_ok": regfiles_ok,
               "crashed": any(e.get("pt") == "src_crash" for e in S.events),
               "printed_ok": printed_ok, "haslog": logger is not None, "log": log,
               "loggers": [i + 1 for i, k in enumerate(kinds) if k in ("regsave", "player", "command")] if logger is not None else []}
    impl = {"p": p, "ev": S.events, "kinds": kinds}
    try:
        if saver is not None:
            saver._wfp.close()
    except Exception:
        pass
    if real_os_ is not None:
        W.os = real_os_
    shutil.rmtree(tmp, ignore_errors=True)
    return impl, obs_rec


def scenario_cli(sc, tmproot, chooser_factory):
    """The command-line main loop (cmdline.py:391-439) under the controller: main() runs as the managed thread 'main'; its
    1 s poll is a scheduling point at which KeyboardInterrupt can be delivered; threading.enumerate() counts managed threads.
    sc: dict(pat, B, sr, sw, ch, p, opts=[...extra argv], interrupt (bool), seed).  Returns (impl, obs_record)."""
    import types
    from auditok import workers as W, util, io as aio, core
    import auditok.cmdline as C
    import auditok.cmdline_util as CU
    from . import sched
    from .split import synth
    sched.install(W)
    S = sched.new_run(None)
    rng = random.Random(sc["seed"])
    S.chooser = chooser_factory(rng, sc)
    pat, B, sr, sw, ch = sc["pat"], sc["B"], sc["sr"], sc["sw"], sc["ch"]
    mn, mx, sl, drop, strict = sc["p"]
    data, nsamp = synth(pat, B, sc.get("tail", B), sw, ch, amp=(3000, 0) if sw > 1 else (100, 0))
    bps = sw * ch
    tmp = tempfile.mkdtemp(dir=tmproot)
    path = os.path.join(tmp, "in.wav")
    with wave.open(path, "wb") as wf:
        wf.setframerate(sr)
        wf.setsampwidth(sw)
        wf.setnchannels(ch)
        wf.writeframes(data)
    blocks = []
    verdicts = []
    created = []
    orig_read = aio.BufferAudioSource.read
    orig_init = W.Worker.__init__
    orig_val = core.AudioEnergyValidator
    orig_time, orig_threading = C.time, C.threading

    def logging_read(self_, size):
        if sched.SCHED is not S or S.me() is None:
            return orig_read(self_, size)
        S.point("src_read")
        d = orig_read(self_, size)
        if d is not None:
            blocks.append(d)
        S.note(pt="src_read", got=(len(d) // bps if d else 0))
        return d

    def naming_init(self_, *a, **k):
        orig_init(self_, *a, **k)
        if isinstance(self_, W.TokenizerWorker):
            name = "tok"
        elif isinstance(self_, W.StreamSaverWorker):
            name = "saver"
        else:
            name = "o%d" % (1 + sum(1 for x in created if x[0].startswith("o")))
        self_._ctl_name = name
        S.qnames[id(sched.inbox_of(self_))] = name
        created.append((name, self_))

    orig_is_valid = util.AudioEnergyValidator.is_valid

    def logged_is_valid(self_, d):
        v = bool(orig_is_valid(self_, d))
        verdicts.append(v)
        S.note(pt="V", v=v)
        return v
    shim_t = types.ModuleType("time_shim")

    def ctl_sleep(sec):
        d = S.point("sleep", sc.get("interrupt", False))
        S.note(pt="sleep", dec=d)
        if d == "interrupt":
            raise KeyboardInterrupt
    import time as _real_time
    for n_ in dir(_real_time):
        if not n_.startswith("__"):
            setattr(shim_t, n_, getattr(_real_time, n_))
    shim_t.sleep = ctl_sleep
    # the command line's view of the threading module: everything as it is, except that the two ways of counting live threads see the
    # managed threads (enumerate() and active_count() are documented to agree)
    shim_th = types.ModuleType("threading_shim")
    for n_ in dir(threading):
        if not n_.startswith("__"):
            setattr(shim_th, n_, getattr(threading, n_))
    shim_th.enumerate = lambda: ["main"] + [n for n in S.alive if n != "main"]
    shim_th.active_count = lambda: len(shim_th.enumerate())
    shim_th.activeCount = shim_th.active_count
    printed = []
    w = B / sr
    out_stream = os.path.join(tmp, "stream_out.wav")
    argv = ["-n", repr((mn - 0.5) * w), "-m", repr((mx + 0.5) * w), "-s", repr((sl + 0.5) * w), "-a", repr(w), "-e", "30"]
    if drop:
        argv.append("-d")
    if strict:
        argv.append("-R")
    if sc["saver"]:
        argv += ["-O", out_stream]
    if sc.get("regsave"):
        argv += ["-o", os.path.join(tmp, "det_{id}.wav")]
    argv.append(path)
    ret = {}
    try:
        aio.BufferAudioSource.read = logging_read
        W.Worker.__init__ = naming_init
        util.AudioEnergyValidator.is_valid = logged_is_valid
        C.time, C.threading = shim_t, shim_th
        W.print = lambda text: printed.append(text)

        def main():
            ret["code"] = C.main(argv)
        status = sched.run_main(main, max_steps=sc.get("max_steps", 6000))
    finally:
        aio.BufferAudioSource.read = orig_read
        W.Worker.__init__ = orig_init
        util.AudioEnergyValidator.is_valid = orig_is_valid
        C.time, C.threading = orig_time, orig_threading
    tw = next((o for n, o in created if n == "tok"), None)
    dets = []
    detregs = {}
    if tw is not None:
        for d in tw.detections:
            first = round(d.start * sr)
            n = round((d.end - d.start) * sr)
            dets.append([d.id, first // B, first // B + -(-n // B) - 1] if first % B == 0 and n >= 1 else [d.id, -1, -1])
            detregs[d.id] = data[first * bps:(first + n) * bps]
    ids = []
    printed_ok = True
    for line in printed:
        m = re.match(r"^(\d+) (\S+) (\S+)$", line)
        if not m:
            printed_ok = False
            continue
        ids.append(int(m.group(1)))
    processed = [ids]
    regfiles_ok = True
    if sc.get("regsave"):
        names = sorted(f for f in os.listdir(tmp) if f.startswith("det_"))
        got_ids = []
        for f in names:
            k = int(re.match(r"det_(\d+)", f).group(1))
            got_ids.append(k)
            try:
                with wave.open(os.path.join(tmp, f)) as wf:
                    if wf.readframes(-1) != detregs.get(k):
                        regfiles_ok = False
            except Exception:
                regfiles_ok = False
        processed.append(sorted(got_ids))
    file_ids = []
    fvalid = True
    if sc["saver"]:
        try:
            with wave.open(out_stream) as wf:
                fvalid = (wf.getframerate(), wf.getsampwidth(), wf.getnchannels()) == (sr, sw, ch)
                fb = wf.readframes(-1)
            off = 0
            for k, blk in enumerate(blocks):
                if off >= len(fb):
                    break
                if fb[off:off + len(blk)] == blk:
                    file_ids.append(k)
                    off += len(blk)
                else:
                    file_ids.append(-1)
                    break
            if off < len(fb) and (not file_ids or file_ids[-1] != -1):
                file_ids.append(-1)
        except Exception:
            fvalid = False
    stream = list(verdicts) + [False] * (len(blocks) - len(verdicts))
    interrupted = any(e.get("pt") == "sleep" and e.get("dec") == "interrupt" for e in S.events)
    p = {"min": mn, "max": mx, "sil": sl, "imin": 0, "isil": 0, "strict": bool(strict), "drop": bool(drop),
         "nobs": len(processed), "saver": bool(sc["saver"]), "cache": 1, "stop": True, "joiner": 0}
    obs_rec = {"p": p, "stream": stream, "judged": len(verdicts), "dets": dets, "processed": processed, "status": status,
               "alive": len(S.alive), "stopped": bool(interrupted), "file": file_ids, "fvalid": bool(fvalid), "joined_ok": True,
               "regfiles_ok": regfiles_ok, "printed_ok": printed_ok and ret.get("code") == 0}
    impl = {"p": p, "ev": S.events, "kinds": ["cli"], "argv": argv[:-1]}
    shutil.rmtree(tmp, ignore_errors=True)
    return impl, obs_rec


def Fraction_round(x, sr):
    from fractions import Fraction
    return round(Fraction(str(x)) * sr)          # exact arithmetic, ties to even: "round(silence*rate)" as the statement writes it


# ------------------------------------------------------------------------------------------------
# schedule policies
# ------------------------------------------------------------------------------------------------
def chooser_random(rng, sc):
    return lambda en, s: rng.choice(en)


def chooser_policy(rng, sc):
    """Priority-based (PCT-like) / timeout storm / slow source / slow observers, chosen per scenario."""
    style = sc.get("style", "random")
    names = ["main", "tok", "saver", "o1", "o2", "o3"]
    prio = {n: rng.random() for n in names}
    change = sorted(rng.sample(range(1, 400), 3))
    if style == "slow_source":
        prio["tok"] = -1
    elif style in ("slow_observers", "starve_observers"):
        for n in ("o1", "o2", "o3"):
            prio[n] = -1
    elif style == "slow_saver":
        prio["saver"] = -1

    def choose(en, s):
        if style == "random":
            return rng.choice(en)
        if style == "timeout_storm":
            t = [e for e in en if e[1] == "timeout"]
            if t and rng.random() < .8:
                return rng.choice(t)
            return rng.choice(en)
        if style == "starve_observers":
            # observers run only when nobody else can: their inboxes hold every message of the stream before the first one is taken
            rest = [e for e in en if e[0] not in ("o1", "o2", "o3")]
            pool = rest or en
            nt = [e for e in pool if e[1] != "timeout"]
            return (nt or pool)[0]
        if s.steps in change:
            prio[rng.choice(names)] = rng.random() - 0.5
        if rng.random() < .1:
            return rng.choice(en)
        return max(en, key=lambda e: (prio.get(e[0], 0), e[1] != "timeout"))
    return choose


def chooser_cli(rng, sc):
    """Random schedule for the command-line loop: the poll of main() is mostly left waiting; with sc['interrupt'] a
    KeyboardInterrupt is delivered at the sc['interrupt_at']-th poll."""
    polls = [0]

    def choose(en, s):
        mains = [e for e in en if e[0] == "main"]
        others = [e for e in en if e[0] != "main"]
        if "main" in s.parked and s.parked["main"][0] == "sleep":
            if sc.get("interrupt") and polls[0] >= sc.get("interrupt_at", 0):
                return ("main", "interrupt")
            if others and rng.random() < .85:
                nt = [e for e in others if e[1] != "timeout"]
                return rng.choice(nt or others) if rng.random() < .8 else rng.choice(others)
            polls[0] += 1
            return ("main", "go")
        return rng.choice(en)
    return choose


BRANCH_DEPTH = 400


def chooser_prefix(prefix, record):
    """Systematic exploration (stateless model checking of the REAL threads): follow `prefix` (indices into the sorted list
    of enabled steps), then always take the first enabled step; `record` receives, per step, how many options there were.
    A waiting thread may time out at most once in a row (a second consecutive timeout of the same thread changes nothing)."""
    def factory(rng, sc):
        last_timeout = {}

        def options(en, s):
            out = []
            for e in en:
                if e[1] == "timeout" and last_timeout.get(e[0]):
                    continue
                out.append(e)
            return out or en

        def choose(en, s):
            opts = options(en, s)
            k = len(record)
            if k >= BRANCH_DEPTH:
                # far beyond the depth at which alternatives are explored: no more branching points are recorded (a run that does not end
                # under "first enabled step" would otherwise leave a hundred thousand of them); finish fairly
                nt = [e for e in opts if e[1] != "timeout"]
                pool = nt or opts
                c = pool[s.steps % len(pool)]
                last_timeout[c[0]] = (c[1] == "timeout")
                return c
            i = prefix[k] if k < len(prefix) else 0
            if i >= len(opts):
                i = 0
            record.append(len(opts))
            c = opts[i]
            last_timeout[c[0]] = (c[1] == "timeout")
            return c
        return choose
    return factory


def explore_systematically(base, tmproot, max_runs, stack=None):
    """Depth-first enumeration of the schedules of one small scenario; returns the list of (sc, impl, obs) runs and whether
    the enumeration was complete.  `stack`: prefixes to start from (default: the empty prefix = the whole tree)."""
    sys.path.insert(0, REPO)
    os.makedirs(tmproot, exist_ok=True)
    stack = [[]] if stack is None else list(stack)
    runs = []
    while stack and len(runs) < max_runs:
        prefix = stack.pop()
        record = []
        sc = dict(base, seed=0.5)
        impl, obs = scenario(sc, tmproot, chooser_prefix(prefix, record))
        sc["systematic_prefix"] = list(prefix)
        runs.append((sc, impl, obs))
        for k in range(len(record) - 1, len(prefix) - 1, -1):
            for alt in range(1, record[k]):
                stack.append(prefix[:k] + list(_pad(prefix, k)) + [alt])
    return runs, not stack, stack


def _pad(prefix, k):
    """choices for steps len(prefix)..k-1 were the default 0"""
    return [0] * (k - len(prefix)) if k > len(prefix) else []


def _explore_job(args):
    base, tmproot, max_runs, stack = args
    runs, done, left = explore_systematically(base, tmproot, max_runs, stack)
    return runs, left


def explore_parallel(tiny, tmproot, cap, nproc=NCPU):
    """Every tiny configuration: a short sequential exploration yields a frontier of unexplored prefixes (disjoint subtrees); rounds of
    parallel depth-first exploration follow, each worker with its share of the remaining budget, unexplored prefixes going back to the
    frontier, until the frontier is empty (every schedule enumerated) or the cap is reached."""
    # every controlled run happens in a worker process: the parent stays single-threaded (a parent that has run threads of its own and then
    # forks a pool once hung with idle workers and a dead pool manager)
    share = max(1, nproc // max(1, len(tiny)))
    rnd = 0
    with ProcessPoolExecutor(max_workers=nproc) as ex:
        out = []
        for rs, left in ex.map(_explore_job, [(base, os.path.join(tmproot, f"x{i}"), min(cap, 16), None) for i, base in enumerate(tiny)], timeout=1800 + cap):
            out.append({"runs": rs, "frontier": left})
        while any(o["frontier"] and len(o["runs"]) < cap for o in out) and rnd < 40:
            rnd += 1
            jobs = []
            for i, o in enumerate(out):
                budget = cap - len(o["runs"])
                if not o["frontier"] or budget <= 0:
                    continue
                parts = [p_ for p_ in (o["frontier"][j::share] for j in range(share)) if p_]
                o["frontier"] = []
                for j, part in enumerate(parts):
                    jobs.append((i, (tiny[i], os.path.join(tmproot, f"x{i}_{rnd}_{j}"), max(1, -(-budget // len(parts))), part)))
            for (i, _), (rs, left) in zip(jobs, ex.map(_explore_job, [j[1] for j in jobs], timeout=1800 + cap)):      # a guard against a hung pool, scaled with the budget
                out[i]["runs"] += rs
                out[i]["frontier"] += left
    return [(o["runs"], not o["frontier"]) for o in out]


def chooser_follow(schedule):
    """Follow a TLC behaviour: schedule = list of (thread, decision-or-None)."""
    def factory(rng, sc):
        it = iter(schedule)

        pending = []

        def choose(en, s):
            # harness-only points of main (its begin, the stop gate) are not steps of the specification
            if "main" in s.parked and s.parked["main"][0] == "begin":
                return ("main", "go")
            if not pending:
                nxt = next(it, None)
                if nxt is not None:
                    pending.append(nxt)
            if pending:
                th, dec = pending[0]
                if th == "main" and "main" in s.parked and s.parked["main"][0] == "stopgate":
                    return ("main", "go")
                cands = [e for e in en if e[0] == th and (dec is None or e[1] == dec)]
                if cands:
                    pending.pop()
                    return cands[0]
                return None         # the real threads cannot take the step the specification took
            # behaviour exhausted: finish the run fairly (no timeouts unless nothing else is possible)
            nt = [e for e in en if e[1] != "timeout"]
            return (nt or en)[0]
        return choose
    return factory


LOG_ALL = [False]


def _run_batch(args):
    scs, tmproot, mode = args
    sys.path.insert(0, REPO)
    try:
        # a pipeline that keeps one descriptor per detection works on every small input; with a modest limit a few hundred
        # detections are enough to tell (the default soft limit of 1024 would need thousands)
        import resource
        soft, hard = resource.getrlimit(resource.RLIMIT_NOFILE)
        resource.setrlimit(resource.RLIMIT_NOFILE, (min(soft, 200) if soft > 0 else 200, hard))
    except Exception:  # noqa
        pass
    out = []
    os.makedirs(tmproot, exist_ok=True)
    for sc in scs:
        fac = chooser_follow(sc["schedule"]) if mode == "follow" else chooser_policy
        try:
            if sc.get("cli"):
                impl, obs = scenario_cli(sc, tmproot, chooser_cli)
            else:
                impl, obs = scenario(sc, tmproot, fac)
        except Exception as exc:  # noqa
            raise MachineryError(f"scenario crashed: {type(exc).__name__}: {exc} sc={ {k: v for k, v in sc.items() if k != 'schedule'} }")
        out.append((sc, impl, obs))
    return out


def run_scenarios(scs, tmproot, mode="policy"):
    if not scs:
        return []
    if LOG_ALL[0]:
        for sc in scs:
            sc["log"] = True
    n = len(scs)
    step = max(1, min(40, n // (NCPU * 2) or 1))
    jobs = [(scs[i:i + step], os.path.join(tmproot, f"b{i}"), mode) for i in range(0, n, step)]
    res = []
    with ProcessPoolExecutor(max_workers=NCPU) as ex:
        for part in ex.map(_run_batch, jobs):
            res += part
    return res


# ------------------------------------------------------------------------------------------------
# scenario generators
# ------------------------------------------------------------------------------------------------
def rand_scenario(rng, tier, prop):
    mx = rng.choice([1, 2, 3, 4])
    mn = rng.randint(1, mx)
    sl = rng.randint(0, mx - 1)
    nwin = rng.choice([0, 1, 2, rng.randint(0, 8), rng.randint(0, 20 if tier == "quick" else 60)])
    pat = [rng.random() < rng.choice([.4, .6, .8]) for _ in range(nwin)]
    B = rng.choice([1, 2, 5])
    sw, ch = rng.choice([(1, 1), (2, 1), (2, 2), (4, 1)])
    nobs = rng.choice([0, 1, 1, 2, 3])
    kinds = [rng.choice(["rec", "rec", "print", "regsave", "joiner"] if prop == "C13" else ["rec", "rec", "print", "regsave", "player", "command"]) for _ in range(nobs)]
    for one in ("player", "command"):
        if kinds.count(one) > 1:
            kinds = ["rec" if (k == one and i != kinds.index(one)) else k for i, k in enumerate(kinds)]
    if kinds.count("joiner") > 1:
        kinds = ["rec" if (k == "joiner" and i != kinds.index("joiner")) else k for i, k in enumerate(kinds)]
    if kinds.count("print") > 1:
        kinds = ["rec" if (k == "print" and i != kinds.index("print")) else k for i, k in enumerate(kinds)]
    if kinds.count("regsave") > 1:
        kinds = ["rec" if (k == "regsave" and i != kinds.index("regsave")) else k for i, k in enumerate(kinds)]
    saver = rng.random() < (.8 if prop == "C13" else .5)
    stop = None
    if prop == "C14" or (prop == "C13" and rng.random() < .3):
        stop = rng.choice([0, 1, 2, rng.randint(0, 30), rng.randint(0, 120)])
    sr = rng.choice([10, 100, 16000])
    silence = 0.0
    for _ in range(50):
        nfr = rng.randint(0, 12) if rng.random() < .7 else rng.choice([255, 256, 512, 1023, 1024, 1025, 2048, 3072, 4096, 8192, 65536])   # buffer-sized gaps too
        silence = max(0.0, float("%.6g" % ((nfr + rng.choice([-0.4, -0.3, 0, 0.3, 0.4])) / sr)))
        if rng.random() < .25:
            # an exact tie: dyadic duration, product with the rate exactly k + 1/2 (round() is half-to-even, nothing is float-ambiguous)
            silence = (2 * rng.randint(0, 5) + 1) / (1 << (sr & -sr).bit_length())
            break
        fr = (__import__("fractions").Fraction(str(silence)) * sr) % 1
        if abs(fr - __import__("fractions").Fraction(1, 2)) >= __import__("fractions").Fraction(1, 20):
            break
    venergy = rng.random() < .3
    if venergy and ch == 1:
        ch = 2
    if prop == "X03":
        if rng.random() < .35:
            sr, B = 8000, 100          # 12.5 ms windows: durations on third-decimal rounding boundaries (0.0375 s)
        kinds = [rng.choice(["regsave", "player", "command", "rec"]) for _ in range(rng.choice([1, 2, 3]))]
        for one in ("regsave", "player", "command"):
            if kinds.count(one) > 1:
                kinds = ["rec" if (k == one and i != kinds.index(one)) else k for i, k in enumerate(kinds)]
        if rng.random() < .4:
            stop = rng.choice([0, 1, 2, rng.randint(0, 30), rng.randint(0, 120)])
    extra = dict(log=(prop == "X03" or rng.random() < .5), validator="energy" if venergy else "custom", uc=rng.choice(["absent", None, 0, 1, -1, "mix", "any", -2]),
                 uc_name=rng.choice(["use_channel", "uc"]), eth_name=rng.choice(["energy_threshold", "eth"]))
    return dict(extra, pat=pat, B=B, sr=sr, silence=silence, sw=sw, ch=ch, p=(mn, mx, sl, rng.random() < .3, rng.random() < .3), obs=kinds,
                saver=saver, cache_blocks=rng.choice([0, 1, 2, 3, 1000]), stop_after=stop, tail=rng.choice([B, rng.randint(1, B)]),
                seed=rng.random(), style=rng.choice(["random", "random", "prio", "timeout_storm", "slow_source", "slow_observers", "slow_saver"]))


def long_scenarios(rng, tier, prop):
    """Histories far longer than any bounded model or small random input reaches: hundreds of detections in one run (thousands in the
    thorough tier, beyond 10^4 once), with the observers that hold per-detection resources (files, descriptors, ids)."""
    out = []
    sizes = [400, 1000] if tier == "quick" else [400, 1000, 1500, 3000, 10100]
    for k_, n in enumerate(sizes):
        if prop == "C14":
            kinds, stop = ["rec", "regsave"], rng.randint(n, 6 * n)
        elif prop == "C13":
            kinds, stop = ["regsave", "rec", "joiner"], None
        else:
            kinds, stop = ["command", "rec", "print"], None
        if n > 5000:
            kinds = [k for k in kinds if k not in ("command", "joiner")]
        pat = []
        while len(pat) < 2 * n:
            pat += [True] * rng.choice([1, 1, 2]) + [False] * rng.choice([1, 1, 2])
        if n > 5000:
            pat = [True, False] * n          # one detection per two windows: more than 10^4 detections in one run
        out.append(dict(pat=pat, B=rng.choice([1, 2]), sr=100, silence=0.03, sw=rng.choice([1, 2]), ch=1, p=(1, 2, 0, False, False), obs=kinds,
                        saver=(prop == "C13" and n < 5000), cache_blocks=rng.choice([0, 3]), stop_after=stop, tail=1, seed=rng.random(),
                        style=["random", "slow_observers", "prio", "slow_source", "random"][k_ % 5],     # slow observers: backlogs of hundreds of messages
                        validator="custom", max_steps=80 * n + 10000, long=True))
    # a backlog on purpose: 700 detections sent before any observer takes one (a bounded inbox, or a sender that gives up, shows here)
    if prop != "C14":
        out.append(dict(pat=[True, False] * 700, B=1, sr=100, silence=0.03, sw=1, ch=1, p=(1, 1, 0, False, False),
                        obs=["rec", "print"] if prop != "C13" else ["rec", "regsave"], saver=False, cache_blocks=0, stop_after=None, tail=1, seed=0.25,
                        style="starve_observers", validator="custom", max_steps=80 * 700 + 10000, long=True))
    return out


# ------------------------------------------------------------------------------------------------
# TLC behaviours -> schedules (leg R)
# ------------------------------------------------------------------------------------------------
def behaviour_to_scenario(b, rng):
    """A simulated behaviour of WorkersMC (sequence of projected states) -> scenario that drives the real threads along it."""
    steps = b["steps"]
    sched_list = []
    natural = False
    for prev, cur in zip(steps, steps[1:]):
        if not prev["fin"] and cur["fin"]:
            natural = prev["t"] in ("read", "fwdstop")
        if (prev["m"], prev["mi"]) != (cur["m"], cur["mi"]):
            sched_list.append(("main", None))
        elif (prev["t"], prev["ni"], prev["c"], prev["fin"]) != (cur["t"], cur["ni"], cur["c"], cur["fin"]) or cur["tb"] < prev["tb"]:
            sched_list.append(("tok", None))
        elif (prev["s"], prev["ca"], prev["f"]) != (cur["s"], cur["ca"], cur["f"]) or cur["sb"] < prev["sb"]:
            sched_list.append(("saver", "deliver" if cur["sb"] < prev["sb"] and prev["s"] == "get" else None))
        else:
            moved = [k for k in range(3) if prev["o"][k] != cur["o"][k] or prev["pr"][k] != cur["pr"][k] or cur["ib"][k] < prev["ib"][k]]
            if moved:
                k = moved[0]
                sched_list.append(("o%d" % (k + 1), "deliver" if cur["ib"][k] < prev["ib"][k] else None))
            # else: stuttering step (timeout / terminal self-loop): nothing to schedule
    p = b["p"]
    stream = list(b["stream"])
    pat = stream if natural else stream + [True, False, True]
    stopped = any(st["m"] == "s_join_tok" for st in steps)
    return dict(pat=pat, B=1, sr=10, sw=2, ch=1, p=(p["min"], p["max"], p["sil"], p["drop"], p["strict"]), obs=["rec"] * p["nobs"],
                saver=p["saver"], cache_blocks=p["cache"], stop_after=("gate" if stopped else None), tail=1, seed=rng.random(),
                schedule=sched_list, silence=0.0, spec={"out": b["out"], "processed": b["processed"], "file": b["file"], "stream": stream})


def simulate_behaviours(wd, tier, seed):
    out = []
    for pset, mf, num in ([("PSetQuick", 4, 150), ("PSetObs2", 4, 150)] if tier == "quick" else
                          [("PSetQuick", 6, 1500), ("PSetObs2", 6, 1500), ("PSetCache", 6, 1000)]):
        cfg = f"CONSTANTS MaxFrames = {mf} PSet <- {pset} FixD1 = TRUE FixD2 = TRUE\nINIT Init\nNEXT Next\nCONSTRAINT Export\nCHECK_DEADLOCK FALSE\n"
        res = tlc.run("WorkersSim", cfg, wd, name=f"sim_{pset}", workers=2, coverage=False, timeout=1200, mem="4g",
                      args=["-simulate", f"num={num}", "-depth", "150", "-seed", str(seed % 100000)])
        if res["error"] or not res["json"]:
            raise MachineryError(f"simulation {pset} failed: {res['error']} ({len(res['json'])} behaviours)")
        out += res["json"]
    return out


def check(prop, tier, replay=None):
    import_auditok()
    V = Verdict(prop, tier)
    wd = workdir("workers_" + prop)
    LOG_ALL[0] = prop == "X03"
    tmproot = os.path.join(wd, "runs")
    os.makedirs(tmproot, exist_ok=True)
    rng = random.Random(SEED * 1000 + int(prop[1:]) + (500 if prop[0] == "X" else 0))
    V.assumptions += [
        "TLC/SANY/CommunityModules, CPython threads; the controller (harness/sched.py) replaces queue.Queue and Thread.start/join of "
        "auditok.workers and serialises the threads: preemption BETWEEN two scheduling points is not explored (all shared state of "
        "workers.py is behind the queues or thread-local between two points)",
        "liveness is checked under weak fairness of every thread's non-timeout steps; main's optional stop request is not fair",
    ]
    # ---- leg M
    if prop == "X06":
        return check_crash(V, wd, tmproot, tier, rng)
    if prop == "X03":
        for pset, mf in ([("PSetObs2", 3), ("PSetQuick", 3)] if tier == "quick" else [("PSetObs2", 4), ("PSetQuick", 4), ("PSetJoiner", 4)]):
            cfg = (f"CONSTANTS MaxFrames = {mf} PSet <- {pset} FixD1 = TRUE FixD2 = TRUE\nSPECIFICATION LSpec\nINVARIANT X03Safe\nINVARIANT C12Safe\n"
                   "CHECK_DEADLOCK FALSE\n")
            res = tlc.run("WorkersLog", cfg, wd, name=f"log_{pset}", timeout=3400, mem="16g")
            tlc.require_ok(res, f"leg M {pset}")
            V.add_model(f"M:log:{pset}", res)
            if res["violated"] or not res["ok"]:
                raise MachineryError(f"leg M {pset}: {res['violated']} / {res['error']}\n" + tlc.counterexample(res, 80))
    inv = {"C12": ["TypeOK", "C12Safe"], "C13": ["TypeOK", "C13Safe"], "C14": ["TypeOK", "C14Safe", "C12Safe"], "X03": ["TypeOK", "C12Safe"]}[prop]
    psets = {"quick": [("PSetQuick", 4)] + ([("PSetJoiner", 3)] if prop == "C13" else []),
             "thorough": [("PSetQuick", 6), ("PSetObs2", 5), ("PSetCache", 5), ("PSetJoiner", 5)]}[tier]
    for pset, mf in ([] if prop == "X03" else psets):
        cfg = (f"CONSTANTS MaxFrames = {mf} PSet <- {pset} FixD1 = TRUE FixD2 = TRUE\nSPECIFICATION Spec\n"
               + "".join(f"INVARIANT {i}\n" for i in inv) + "PROPERTY Termination\nCHECK_DEADLOCK TRUE\n")
        res = tlc.run("WorkersMC", cfg, wd, name=f"mc_{pset}", timeout=3400, mem="16g")
        tlc.require_ok(res, f"leg M {pset}")
        V.add_model(f"M:{pset}", res)
        if res["violated"] or not res["ok"]:
            raise MachineryError(f"leg M {pset}: {res['violated']} / {res['error']}\n" + tlc.counterexample(res, 80))
        need = ["MStopTok", "TPollStop", "TNotify", "ObsGet", "ObsTimeout", "MSStopObs"]
        need += ["ObsDrain"] if pset == "PSetJoiner" else ["TFwd", "SGet", "SDrain", "STimeout"]
        dead = [a for a in need if res["actions"].get(a, [0, 0])[1] == 0]      # taken at least once (timeouts stutter: no new state)
        if dead:
            raise MachineryError(f"leg M {pset}: actions never taken: {dead}")
    V.cov["exhaustive"] = True

    # ---- leg R: simulated behaviours of the model, followed by the real threads
    t0 = time.time()
    behs = simulate_behaviours(wd, tier, SEED)
    if prop != "C14":
        pass
    scs = [behaviour_to_scenario(b, rng) for b in behs]
    rruns = run_scenarios(scs, tmproot, mode="follow")
    unf = 0
    for sc, impl, ob in rruns:
        spec = sc["spec"]
        same = (ob["status"] == "done" and ob["stream"] == spec["stream"] and [[d[1], d[2]] for d in ob["dets"]] == [[t["start"], t["end"]] for t in spec["out"]]
                and ob["processed"] == [x for x in spec["processed"][:len(sc["obs"])]] and (not sc["saver"] or ob["file"] == spec["file"]))
        if not same:
            unf += 1
            V.divergence({"follow": True, "status": ob["status"], "spec": spec, "observed": {k: ob[k] for k in ("stream", "dets", "processed", "file")}})
    report_runs(V, prop, rruns, wd, "R")
    V.leg("R", behaviours=len(rruns), not_reproduced=unf, statuses=count_status(rruns), wall_s=round(time.time() - t0, 2))

    # ---- leg T: explorer schedules
    t0 = time.time()
    n = {"quick": 500, "thorough": 6000 if prop != "X03" else 2000}[tier]      # X03 is an extra: a thorough tier that ends within the hour
    scs = [rand_scenario(rng, tier, prop) for _ in range(n)]
    if prop == "C14":
        # fault enumeration: one base configuration, the stop injected at every step index
        for b in range(3 if tier == "quick" else 20):
            base = rand_scenario(rng, tier, prop)
            base["style"] = "random"
            for k in range(0, 60 if tier == "quick" else 200, 1 if tier == "thorough" else 2):
                sc = dict(base)
                sc["stop_after"] = k
                scs.append(sc)
    if prop in ("C14", "C12"):
        # the command-line main loop itself (cmdline.py:391-439): natural end for C12, Ctrl-C at the k-th poll for C14
        for k in range(60 if tier == "quick" else 600):
            sc = rand_scenario(rng, tier, prop)
            sc.update(cli=True, interrupt=(prop == "C14"), interrupt_at=rng.choice([0, 0, 1, 2, rng.randint(0, 12)]), regsave=rng.random() < .4,
                      obs=["print"], stop_after=None, sr=rng.choice([10, 100]))
            sc["sw"] = 2 if sc["sw"] == 1 else sc["sw"]
            scs.append(sc)
    scs = long_scenarios(rng, tier, prop) + scs
    runs = run_scenarios(scs, tmproot)
    report_runs(V, prop, runs, wd, "T")
    # ---- leg X: EVERY schedule (up to a cap) of tiny configurations on the real threads, depth-first
    t1 = time.time()
    tiny = []
    for pat, obs_kinds, saver, stop in ([([True], ["rec"], False, None), ([True, False], ["rec"], False, 1), ([True], [], True, None)]
                                        if tier == "quick" else
                                        [([True], ["rec"], False, None), ([True, False], ["rec"], False, 1), ([True, True], ["rec"], False, 2), ([True], [], True, None),
                                         ([True], ["rec"], True, 0), ([True, False, True], ["rec", "rec"], False, None), ([True, True], ["rec"], True, 3)]):
        if prop == "C12" and stop is not None:
            continue
        if prop == "C14" and stop is None:
            continue
        if prop == "C13" and not saver:
            continue
        tiny.append(dict(pat=pat, B=1, sr=10, sw=2, ch=1, p=(1, 2, 0, False, False), obs=obs_kinds, saver=saver, cache_blocks=1, stop_after=stop,
                         tail=1, silence=0.0, validator="custom", max_steps=100000))
    cap = 260 if tier == "quick" else (12000 if prop != "X03" else 3000)
    xruns = []
    complete = []
    if tiny:
        for (rs, done_), base in zip(explore_parallel(tiny, tmproot, cap), tiny):
            xruns += rs
            complete.append({"windows": base["pat"], "observers": len(base["obs"]), "saver": base["saver"], "stop_after": base["stop_after"],
                             "schedules": len(rs), "all_schedules_enumerated": bool(done_)})
        report_runs(V, prop, xruns, wd, "X")
    V.leg("X", configurations=complete, runs=len(xruns), wall_s=round(time.time() - t1, 2))
    V.leg("T", runs=len(runs), events=sum(len(r[1]["ev"]) for r in runs), statuses=count_status(runs), wall_s=round(time.time() - t0, 2))
    shutil.rmtree(tmproot, ignore_errors=True)
    if prop == "X03":
        rc = V.finish(rule="X03 (beyond the list): WorkersLog (log as history variable of Workers) model-checked; every controlled run of the real threads "
                           "carries a logger whose records, tagged with the writing thread, are judged by WorkersObs!X03")
        from .common import EVIDENCE, OUT
        try:
            shutil.move(os.path.join(EVIDENCE, "X03.json"), os.path.join(OUT, "X03.json"))
        except OSError:
            pass
        return rc
    return V.finish(
        rule="leg M: all interleavings / timeout firings / stop points of the tier configurations (safety + termination under weak fairness); "
             "leg T: controlled executions of the real threads under seeded schedule policies (random, priority, timeout storm, slow "
             "source/observers/saver) with the stop injected at every step index of base schedules; each run judged by TLC on WorkersObs "
             "(monitors) and WorkersTrace (step conformance). distinct = canonical (configuration, input, event sequence); non-trivial = at least one detection")


def check_crash(V, wd, tmproot, tier, rng):
    """X06: an observation, not a listed property -- the source raises mid-stream.  Leg M: WorkersCrash (hang without stop, rescue by
    stop_all, prefix still right); leg T: controlled runs of the real threads with the exception injected at the k-th read; a run the
    model does not describe is reported as a DIVERGENCE (the model is a description of the code here, not a requirement on it)."""
    for pset, mf in ([("PSetQuick", 3)] if tier == "quick" else [("PSetQuick", 4), ("PSetObs2", 4), ("PSetJoiner", 3)]):
        cfg = (f"CONSTANTS MaxFrames = {mf} PSet <- {pset} FixD1 = TRUE FixD2 = TRUE\nSPECIFICATION CSpec\nINVARIANT HangsWithoutStop\n"
               "INVARIANT PrefixStillOK\nPROPERTY StopRescues\nCHECK_DEADLOCK FALSE\n")
        res = tlc.run("WorkersCrash", cfg, wd, name=f"crash_{pset}", timeout=3400, mem="16g")
        tlc.require_ok(res, f"leg M {pset}")
        V.add_model(f"M:crash:{pset}", res)
        if res["violated"] or not res["ok"]:
            raise MachineryError(f"leg M {pset}: {res['violated']} / {res['error']}\n" + tlc.counterexample(res, 80))
    V.cov["exhaustive"] = True
    t0 = time.time()
    scs = []
    for _ in range(120 if tier == "quick" else 1500):
        sc = rand_scenario(rng, "quick", "C12")
        sc["obs"] = [k for k in sc["obs"] if k != "command"] or ["rec"]
        sc["crash_at"] = rng.choice([0, 1, 2, rng.randint(0, len(sc["pat"]) // sc["B"] + 1)])
        sc["stop_after"] = rng.choice([None, None, rng.randint(0, 80)])
        sc["max_steps"] = 1500
        sc["validator"] = "custom"
        scs.append(sc)
    runs = run_scenarios(scs, tmproot)
    report_runs(V, "X06", runs, wd, "T")
    hung = sum(1 for r in runs if r[2]["crashed"] and r[2]["status"] != "done")
    V.leg("T", runs=len(runs), crashed=sum(1 for r in runs if r[2]["crashed"]), hung_until_budget=hung, statuses=count_status(runs), wall_s=round(time.time() - t0, 2))
    shutil.rmtree(tmproot, ignore_errors=True)
    rc = V.finish(rule="X06 (observation): WorkersCrash model-checked; controlled runs with an injected source exception compared with it; mismatches are divergences")
    from .common import EVIDENCE, OUT
    try:
        shutil.move(os.path.join(EVIDENCE, "X06.json"), os.path.join(OUT, "X06.json"))
    except OSError:
        pass
    return rc


def count_status(runs):
    c = {}
    for r in runs:
        c[r[2]["status"]] = c.get(r[2]["status"], 0) + 1
    return c


OBS_CFG = "SPECIFICATION Spec\nCONSTRAINT Mon\nPOSTCONDITION Post\nCHECK_DEADLOCK FALSE\n"
IMPL_CFG = ("CONSTANTS MaxFrames = 1000000 PSet = {} FixD1 = TRUE FixD2 = TRUE\nSPECIFICATION TSpec\nCONSTRAINT Progress\n"
            "POSTCONDITION Post\nCHECK_DEADLOCK FALSE\n")
BIT = {"C12": 1, "C13": 2, "C14": 4, "X03": 8, "X06": 16}


def report_runs(V, prop, runs, wd, leg):
    # "stuck" = a managed thread blocked somewhere the controller does not see (a real sleep, lock or queue): the run is not
    # an observation of the protocol under a controlled schedule; it is counted and reported as a divergence, never as a verdict
    stuck = [r for r in runs if r[2]["status"] == "stuck"]
    for r in stuck:
        V.divergence({"uncontrolled": True, "scenario": {k: v for k, v in r[0].items() if k not in ("schedule", "seed")}})
    runs = [r for r in runs if r[2]["status"] != "stuck"]
    if not runs:
        return
    obs = [r[2] for r in runs]
    for ob_ in obs:
        ob_.setdefault("crashed", False)
        ob_.setdefault("haslog", False)
        ob_.setdefault("log", [])
        ob_.setdefault("loggers", [])
    rows, st = judge("WorkersObs", OBS_CFG, obs, wd, "wo_" + leg, weight=lambda x: len(x["stream"]) + 1)
    V.cov["states"] += st
    # step conformance only for runs whose observers are plain workers (the joiner's drain phase is a different thread shape)
    idx = [i for i, r in enumerate(runs) if "cli" not in r[1]["kinds"] and r[2]["status"] == "done" and len(r[1]["ev"]) < 20000 and not r[2].get("crashed")]
    irows, ist = judge("WorkersTrace", IMPL_CFG, [runs[i][1] for i in idx], wd, "wt_" + leg, strip=lambda x: {"p": x["p"], "ev": x["ev"]})
    V.cov["states"] += ist
    accepted = {i: (r[2] == r[3]) for i, r in zip(idx, irows)}
    for i, ((sc, impl, ob), row) in enumerate(zip(runs, rows)):
        code = row[2] - 1
        if code < 0:
            raise MachineryError("WorkersObs did not judge a run")
        if prop == "X06":
            if code & BIT[prop]:
                V.divergence({"crash_model": "WorkersCrash does not describe this run", "sc": {k: v for k, v in sc.items() if k not in ("seed", "schedule")},
                              "status": ob["status"], "alive": ob["alive"], "stopped": ob["stopped"], "processed": ob["processed"], "dets": ob["dets"]})
            continue
        if code & BIT[prop]:
            sched_key = [(e["th"], e["pt"]) for e in impl["ev"]]
            V.violation({"sc": {k: v for k, v in sc.items() if k not in ("seed", "schedule")}, "schedule": key_sched(sched_key)},
                        f"pipeline obs={sc['obs']} saver={sc['saver']} cache={sc['cache_blocks']} p={sc['p']} windows="
                        f"{''.join('A' if v else 'a' for v in sc['pat'][:60])}{'...(%d windows)' % len(sc['pat']) if len(sc['pat']) > 60 else ''} stop_after={sc['stop_after']} style={sc.get('style')}: status={ob['status']} alive={ob['alive']} "
                        f"dets={str(ob['dets'])[:300]} processed={str(ob['processed'])[:300]} file={ob['file'][:12]} blocks_read={len(ob['stream'])} judged={ob['judged']} "
                        f"flags(joined,regfiles,printed,fvalid)={ob['joined_ok'], ob['regfiles_ok'], ob['printed_ok'], ob['fvalid']} violates {prop}",
                        {"leg": leg, "scenario": {k: v for k, v in sc.items() if k != "schedule"}, "observed": ob, "events": impl["ev"]})
        elif i in accepted and not accepted[i]:
            V.divergence({"sc": {k: v for k, v in sc.items() if k not in ("schedule",)}, "matched_events": irows[idx.index(i)][2]})
    V.cov["traces_validated_against_impl"] += len(runs)
    V.count(len(runs), (canon([r[1]["p"], r[2]["stream"], [(e["th"], e["pt"]) for e in r[1]["ev"]]]) for r in runs if r[2]["dets"]))
    if runs:
        big = max(runs, key=lambda r: len(r[1]["ev"]) if len(r[1]["ev"]) < 3000 else 0)
        V.sample({"leg": leg, "scenario": {k: v for k, v in big[0].items() if k not in ("schedule", "seed")}, "observed": big[2],
                  "first_events": big[1]["ev"][:25]})


def key_sched(sk):
    import hashlib
    return hashlib.sha1(json.dumps(sk).encode()).hexdigest()[:10]
