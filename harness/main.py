"""Entry point: ./check <ID> [quick|thorough] [--replay <path>]"""
import os
import sys
import traceback

from .common import MachineryError

DISPATCH = {
    "C01": "tok", "C02": "tok", "C03": "tok", "C04": "tok", "C08": "tok",
    "C10": "reader", "C19": "reader", "C11": "source", "C05": "split", "C07": "energy", "C15": "cli", "X01": "mic", "X02": "export", "X03": "workers", "X04": "cli", "X05": "dispatch", "X06": "workers", "C20": "reuse", "C16": "region", "C18": "files", "C17": "region", "C12": "workers", "C13": "workers", "C14": "workers", "C06": "split", "C09": "split",
}


def main(argv):
    if not argv:
        print("usage: check <ID> [quick|thorough] [--replay <path>]")
        return 2
    prop = argv[0]
    tier = os.environ.get("VERIF_TIER") or "quick"
    replay = None
    rest = argv[1:]
    while rest:
        a = rest.pop(0)
        if a in ("quick", "thorough"):
            tier = a
        elif a == "--replay":
            replay = rest.pop(0)
    if tier not in ("quick", "thorough"):
        tier = "quick"
    if prop not in DISPATCH:
        print(f"unknown property {prop}")
        return 2
    mod = __import__("harness." + DISPATCH[prop], fromlist=["x"])
    try:
        if replay:
            # Replay = the same deterministic exploration (seed and tier recorded in the replay file), reporting only the
            # failing input whose canonical key the file names: exit 1 iff that violation is still there.
            import json
            info = json.load(open(replay))
            os.environ["VERIF_REPLAY_KEY"] = info["key"]
            print(f"replaying {info['property']} key={info['key']}: {info['what'][:300]}")
            from . import common
            common.SEED = int(info.get("seed", common.SEED))
            for m_ in list(sys.modules.values()):
                if getattr(m_, "__name__", "").startswith("harness.") and hasattr(m_, "SEED"):
                    m_.SEED = common.SEED
            return mod.check(prop, info.get("tier", tier))
        return mod.check(prop, tier)
    except MachineryError as exc:
        print(f"MACHINERY-ERROR property={prop}: {exc}")
        return 2
    except Exception:
        traceback.print_exc()
        print(f"MACHINERY-ERROR property={prop}: unexpected exception")
        return 2


if __name__ == "__main__":
    sys.exit(main(sys.argv[1:]))
