"""Entry point: ./check <ID> [quick|thorough] [--replay <path>]"""
import os
import sys
import traceback

from .common import MachineryError

DISPATCH = {
    "C01": "tok", "C02": "tok", "C03": "tok", "C04": "tok", "C08": "tok",
    "C10": "reader", "C19": "reader", "C11": "source", "C05": "split", "C07": "energy", "C15": "cli", "C20": "reuse", "C16": "region", "C18": "files", "C17": "region", "C12": "workers", "C13": "workers", "C14": "workers", "C06": "split", "C09": "split",
}


def main(argv):
    if not argv:
        print("usage: check <ID> [quick|thorough] [--replay <path>]")
        return 2
    prop = argv[0]
    tier = os.environ.get("VERIF_TIER") or "quick"
    replay = None
    rest = argv[1:]
    while rest:
        a = rest.pop(0)
        if a in ("quick", "thorough"):
            tier = a
        elif a == "--replay":
            replay = rest.pop(0)
    if tier not in ("quick", "thorough"):
        tier = "quick"
    if prop not in DISPATCH:
        print(f"unknown property {prop}")
        return 2
    mod = __import__("harness." + DISPATCH[prop], fromlist=["x"])
    try:
        if replay:
            return mod.replay(prop, replay)
        return mod.check(prop, tier)
    except MachineryError as exc:
        print(f"MACHINERY-ERROR property={prop}: {exc}")
        return 2
    except Exception:
        traceback.print_exc()
        print(f"MACHINERY-ERROR property={prop}: unexpected exception")
        return 2


if __name__ == "__main__":
    sys.exit(main(sys.argv[1:]))
