"""Running TLC and reading what it prints."""
import glob
import json
import os
import re
import shutil
import subprocess
import time

from .common import SPEC, MachineryError, NCPU

JAR = "/opt/veriftools/tla/tla2tools.jar:/opt/veriftools/tla/CommunityModules-deps.jar"


def stage(wd):
    """Copy every specification module into the work directory (TLC resolves EXTENDS there)."""
    for f in glob.glob(os.path.join(SPEC, "*.tla")):
        dst = os.path.join(wd, os.path.basename(f))
        if not os.path.exists(dst):
            shutil.copy(f, dst)


_RE_STATES = re.compile(r"^(\d[\d,]*) states generated, (\d[\d,]*) distinct states found, (\d[\d,]*) states left")
_RE_DEPTH = re.compile(r"depth of the complete state graph search is (\d+)")
_RE_COV = re.compile(r"^<(\w+) line \d+, col \d+ to line \d+, col \d+ of module (\w+)(?: \([\d ]+\))?>: (\d+):(\d+)")
_RE_INV = re.compile(r"^Error: Invariant (\w+) is violated")
_RE_PROP = re.compile(r"^Error: (Action|Temporal) propert(y|ies) (.*) (is|were) violated")


def run(module, cfg, wd, name=None, workers=None, timeout=900, coverage=True, env=None, args=(),
        jvm=(), mem="4g", keep_out=True, deadlock=None):
    """Run TLC on `module` with config text `cfg` inside `wd`.  Returns a dict:
       ok (no error reported), distinct, generated, depth, actions {name: [distinct, total]},
       violated (invariant / property name or None), error (text of first Error:), lines (stdout),
       json (PrintT'ed JSON strings, decoded), wall_s, cmd, constants (the CONSTANTS part of cfg).
    """
    stage(wd)
    name = name or module
    cfgp = os.path.join(wd, name + ".cfg")
    with open(cfgp, "w") as f:
        f.write(cfg)
    meta = os.path.join(wd, "meta_" + name)
    w = workers or min(8, NCPU)
    if w == 1:
        # short single-worker batches (trace judging), many JVMs side by side: measured 8 shards in
        # 3.8 s with these flags against 24.7 s with the parallel collector and the tiered compiler
        gc = ["-XX:+UseSerialGC", "-XX:TieredStopAtLevel=1"]
    else:
        gc = ["-XX:+UseParallelGC", "-XX:ParallelGCThreads=4"]
    jtmp = os.path.join(wd, "jtmp")          # TLC leaves an empty tlc-* directory in java.io.tmpdir per run: keep them inside the work directory
    os.makedirs(jtmp, exist_ok=True)
    cmd = ["java", *gc, "-Xss256m", "-Xmx" + mem, "-Djava.io.tmpdir=" + jtmp, *jvm, "-cp", JAR, "tlc2.TLC",
           "-workers", str(w), "-metadir", meta, "-noGenerateSpecTE", "-config", cfgp]
    if coverage:
        cmd += ["-coverage", "1"]
    if deadlock is False:
        cmd += ["-deadlock"]
    cmd += list(args) + [module + ".tla"]
    e = dict(os.environ)
    if env:
        e.update(env)
    t0 = time.time()
    outp = os.path.join(wd, name + ".out")
    for attempt in (1, 2):
        try:
            with open(outp, "w") as fo:
                p = subprocess.run(cmd, cwd=wd, stdout=fo, stderr=subprocess.STDOUT, timeout=timeout, env=e)
            rc = p.returncode
            timed_out = False
        except subprocess.TimeoutExpired:
            rc = -9
            timed_out = True
        if rc < 0 and not timed_out and attempt == 1:
            # the JVM was killed by a signal (in practice the kernel's OOM killer while a sibling job held the memory): once more, later
            time.sleep(20)
            continue
        break
    wall = time.time() - t0
    res = {"ok": False, "distinct": 0, "generated": 0, "depth": 0, "actions": {}, "violated": None,
           "error": None, "json": [], "wall_s": round(wall, 2), "rc": rc, "timed_out": timed_out,
           "cmd": " ".join(cmd[cmd.index("tlc2.TLC"):]), "out": outp,
           "constants": " ".join(l.strip() for l in cfg.splitlines() if "=" in l or "<-" in l)}
    finished = False
    errs = []
    with open(outp, errors="replace") as f:
        for line in f:
            line = line.rstrip("\n")
            if line.startswith('"'):
                try:
                    res["json"].append(json.loads(json.loads(line)))
                    continue
                except Exception:
                    pass
            m = _RE_STATES.match(line)
            if m:
                res["generated"] = int(m.group(1).replace(",", ""))
                res["distinct"] = int(m.group(2).replace(",", ""))
                continue
            m = _RE_DEPTH.search(line)
            if m:
                res["depth"] = int(m.group(1))
                continue
            m = _RE_COV.match(line)
            if m:
                a = res["actions"].setdefault(m.group(1), [0, 0])
                a[0] += int(m.group(3))
                a[1] += int(m.group(4))
                continue
            m = _RE_INV.match(line)
            if m and not res["violated"]:
                res["violated"] = m.group(1)
            m = _RE_PROP.match(line)
            if m and not res["violated"]:
                res["violated"] = m.group(3).strip()
            if line.startswith("Error:"):
                errs.append(line)
            if "Model checking completed" in line or "Finished in" in line or "Simulation" in line and "complete" in line:
                finished = True
    res["error"] = errs[0] if errs else None
    res["errors"] = errs[:5]
    res["finished"] = finished
    res["ok"] = finished and not errs and rc == 0
    return res


def counterexample(res, maxlines=400):
    """Text of the error trace TLC printed (from the first 'Error:' line)."""
    out = []
    on = False
    with open(res["out"], errors="replace") as f:
        for line in f:
            if line.startswith("Error:"):
                on = True
            if on:
                out.append(line.rstrip("\n"))
                if len(out) >= maxlines:
                    break
    return "\n".join(out)


def require_ok(res, what):
    if not res["finished"] and not res["violated"]:
        tail = ""
        try:
            with open(res["out"], errors="replace") as f:
                tail = "".join(f.readlines()[-25:])
        except Exception:
            pass
        raise MachineryError(f"TLC did not finish ({what}): rc={res['rc']} timed_out={res['timed_out']} "
                             f"error={res['error']}\n{tail}")


def sany(wd, module):
    stage(wd)
    p = subprocess.run(["java", "-cp", JAR, "tla2sany.SANY", module + ".tla"], cwd=wd,
                       capture_output=True, text=True, timeout=120)
    ok = p.returncode == 0 and "Semantic errors" not in p.stdout and "Parsing or semantic analysis failed" not in p.stdout \
        and "***Parse Error***" not in p.stdout
    return ok, p.stdout[-2000:]


def apalache(module, obligations, wd, timeout=1200):
    """obligations: [(invariant, expected_to_hold)] checked with `apalache-mc check --inv=<inv> --length=0` on spec/<module>.tla (symbolic
    integers: no bound).  Returns (detail, discharged); raises MachineryError when Apalache contradicts the expectation."""
    import shutil as _sh
    from .common import SPEC
    _sh.copy(os.path.join(SPEC, module + ".tla"), wd)
    detail = {}
    done = 0
    for inv, expect_ok in obligations:
        t0 = time.time()
        try:
            jtmp = os.path.join(wd, "jtmp")
            os.makedirs(jtmp, exist_ok=True)
            p_ = subprocess.run(["apalache-mc", "check", f"--inv={inv}", "--length=0", f"--out-dir={wd}/apalache_{module}_{inv}", module + ".tla"],
                                cwd=wd, capture_output=True, text=True, timeout=timeout,
                                env=dict(os.environ, JVM_ARGS=(os.environ.get("JVM_ARGS", "") + " -Djava.io.tmpdir=" + jtmp).strip()))
            ok, bad, out = "EXITCODE: OK" in p_.stdout, "EXITCODE: ERROR (12)" in p_.stdout, p_.stdout[-400:]
        except subprocess.TimeoutExpired:
            ok, bad, out = False, False, "timeout"
        detail[inv] = {"holds": ok, "refuted": bad, "wall_s": round(time.time() - t0, 1)}
        if expect_ok and bad:
            raise MachineryError(f"Apalache refutes {inv} of {module}: {out}")
        if not expect_ok and ok:
            raise MachineryError(f"Apalache accepts the false formula {inv} of {module} (vacuity control): {out}")
        done += 1 if (ok if expect_ok else bad) else 0
    return detail, done
