"""Audio source check C11 (and the close/reopen part of C20).

leg M : TLC on SourceMC: every transition (state, call, argument) of the abstract source for all four
        kinds, n <= MaxN, two rates; invariant C11.  Every transition is exported.
leg R : one implementation test per transition: a fresh real source is driven to the transition's
        pre-state, the call is made, its result and the post-state are compared (MongoDB-style).
leg T : seeded long call sequences (50-200 calls) on the four kinds with 1/2/4-byte, 1-3 channel audio
        and rates up to 44100; judged by TLC (SourceTrace).
"""
import os
import random
import shutil
import sys
import time
from fractions import Fraction

from . import tlc
from .audio import decode, make_audio, make_input, max_ids
from .common import NCPU, REPO, SEED, MachineryError, Verdict, canon, import_auditok, workdir
from .judge import judge

NONE = -9999
FORMATS = [(1, 1), (2, 1), (2, 2), (4, 1), (1, 3), (4, 2), (4, 3)]
KIND2INPUT = {"buffer": "source", "raw": "raw_lazy", "wav": "wav_lazy", "stdin": "stdin", "stdin_pipe": "stdin_pipe"}
TIERS = {"quick": dict(MaxN=4), "thorough": dict(MaxN=10)}


def make_source(kind, n, sr, sw, ch, tmpdir, tag="s", pipe=False):
    from auditok import io as aio
    data = make_audio(n, sw, ch)
    # standard input is exercised both as an in-memory buffer and as a pipe fed in bursts that ignore sample boundaries
    inp, kw, cleanup = make_input("stdin_pipe" if (kind == "stdin" and pipe) else KIND2INPUT[kind], data, sr, sw, ch, tmpdir, tag)
    if kind == "buffer":
        return inp, cleanup
    try:
        src = aio.get_audio_source(inp, **kw)
    except Exception:
        cleanup()
        raise
    return src, cleanup


def call(src, op, arg, sw, ch):
    """Perform one call, return the projected result record {op,arg,k,ids,v}."""
    from auditok.exceptions import AudioIOError
    r = {"op": op, "arg": arg, "k": "ok", "ids": [], "v": 0}
    try:
        if op == "open":
            src.open()
        elif op == "close":
            src.close()
        elif op == "read":
            k, ids = decode(src.read(None if arg == NONE else arg), sw, ch)
            r["k"], r["ids"] = k, ids
        elif op == "getpos":
            r["k"], r["v"] = "val", src.position
        elif op == "setpos":
            src.position = arg
        elif op == "getms":
            r["k"], r["v"] = "val", src.position_ms
        elif op == "setms":
            src.position_ms = arg
        elif op == "gets":
            f = Fraction(src.position_s).limit_denominator(10 ** 7)
            r["k"], r["v"] = "rat", [f.numerator, f.denominator]
        elif op == "sets":
            src.position_s = arg / 8.0
        elif op == "rewind":
            src.rewind()
    except (AudioIOError, OSError):
        r["k"] = "AudioIOError"
    except IndexError:
        r["k"] = "IndexError"
    except Exception as exc:  # noqa
        r["k"] = type(exc).__name__
    return r


def observe_state(src, kind, n, sw, ch):
    """(isopen, pos) of a real source; destructive for non-buffer kinds (reads the remainder)."""
    isopen = bool(src.is_open())
    if kind == "buffer":
        return isopen, src.position
    if kind in ("raw", "wav") and not isopen:
        return isopen, 0            # a closed file source has no cursor
    if not isopen:
        src.open()
    k, ids = decode(src.read(n + 1), sw, ch)
    if k == "none":
        return isopen, n
    if k == "blk" and ids == list(range(n - len(ids) + 1, n + 1)):
        return isopen, n - len(ids)
    return isopen, -1


def same(a, b):
    if a["k"] != b["k"] or list(a["ids"]) != list(b["ids"]):
        return False
    if a["k"] == "val":
        return a["v"] == b["v"]
    return True


def replay_transitions(trans, tmpdir):
    bad = []
    for i, t in enumerate(trans):
        kind, n, sr = t["kind"], t["n"], t["sr"]
        sw, ch = FORMATS[i % len(FORMATS)]
        src, cleanup = make_source(kind, n, sr, sw, ch, tmpdir, pipe=(i % 2 == 1))
        try:
            pre = t["prev"]
            if kind == "buffer":
                if pre["isopen"]:
                    src.open()
                src.position = pre["pos"]
            else:
                if pre["isopen"] or pre["pos"] > 0:
                    src.open()
                    if pre["pos"] > 0:
                        src.read(pre["pos"])
                    if not pre["isopen"]:
                        src.close()
            exp = t["last"]
            got = call(src, exp["op"], exp["arg"], sw, ch)
            ok = same(exp, got)
            if ok and exp["k"] == "rat":
                ok = got["v"][0] * sr == exp["v"] * got["v"][1]
            post = observe_state(src, kind, n, sw, ch)
            if ok and (post[0] != t["post"]["isopen"] or post[1] != t["post"]["pos"]):
                ok = False
            if not ok:
                bad.append({"transition": t, "fmt": [sw, ch], "got": got, "post_observed": list(post)})
            try:
                src.close()
            except Exception:
                pass
        finally:
            cleanup()
    return bad


_AUDIO_CACHE = {}


def gen_setter_trace(rng, tier):
    """Buffer source, realistic rates, dense sweep of position_ms / position_s / position assignments each
    followed by a position read-back and occasionally a one-sample read (where does the next read start?)."""
    from auditok import io as aio
    sr = rng.choice([100, 1000, 8000, 11025, 16000, 22050, 44100, 48000])
    n = min(5 * sr, 40000)        # keeps every product of the specification below 2^31 (TLC integers)
    sw, ch = 2, 2
    key = (n, sw, ch)
    if key not in _AUDIO_CACHE:
        _AUDIO_CACHE.clear()
        _AUDIO_CACHE[key] = make_audio(n, sw, ch)
    src = aio.BufferAudioSource(_AUDIO_CACHE[key], sr, sw, ch)
    ev = [call(src, "open", 0, sw, ch)]
    span_ms = (1000 * n) // sr
    for _ in range(60 if tier == "quick" else 150):
        x = rng.random()
        if x < .7:
            arg = rng.randint(-span_ms - 50, span_ms + 50)
            if arg < 0 and abs(sr * arg) // 1000 == 0:
                arg = 0
            ev.append(call(src, "setms", arg, sw, ch))
        elif x < .85:
            arg = rng.randint(-8 * n // sr - 2, 8 * n // sr + 2)
            if arg < 0 and abs(sr * arg) // 8 == 0:
                arg = 0
            ev.append(call(src, "sets", arg, sw, ch))
        else:
            ev.append(call(src, "setpos", rng.randint(-n - 2, n + 2), sw, ch))
        ev.append(call(src, rng.choice(["getpos", "getpos", "getms", "gets"]), 0, sw, ch))
        if rng.random() < .3:
            ev.append(call(src, "read", 1, sw, ch))
    return {"kind": "buffer", "n": n, "sr": sr, "ev": ev, "fmt": [sw, ch]}


def big_trace(rng, kind, tmpdir):
    """One file source holding more than two million samples, read in chunks larger than 2^20 samples / 1 MiB: size thresholds
    of internal buffers are out of reach of small inputs whatever the call sequence."""
    import numpy as np
    from auditok import io as aio
    sw, ch, sr = 2, rng.choice([1, 2, 3]), 16000
    n = (1 << 21) + rng.randint(1000, 90000)
    arr = (np.arange(n * ch, dtype=np.int64) * 7919 % 65521 - 30000).astype("<i2")
    data = arr.tobytes()
    bps = sw * ch
    path = os.path.join(tmpdir, "big." + ("raw" if kind == "raw" else "wav"))
    if kind == "raw":
        with open(path, "wb") as f:
            f.write(data)
        src = aio.get_audio_source(path, sampling_rate=sr, sample_width=sw, channels=ch, large_file=True)
    else:
        import wave
        with wave.open(path, "wb") as w:
            w.setframerate(sr); w.setsampwidth(sw); w.setnchannels(ch); w.writeframes(data)
        src = aio.get_audio_source(path, large_file=True)
    ev = []
    pos = 0
    src.open()
    ev.append({"op": "open", "arg": 0, "k": "ok", "ids": [], "v": 0})
    for k in (rng.randint(1, 5000), (1 << 20) + rng.randint(1, 50000), rng.randint(1, 3), NONE):
        got = src.read(None if k == NONE else k)
        if got is None:
            ev.append({"op": "bigread", "arg": k, "k": "none", "ids": [], "v": 0, "first": 0, "len": 0, "match": True})
            continue
        m = len(got) // bps
        ev.append({"op": "bigread", "arg": k, "k": "blk" if len(got) % bps == 0 else "ragged", "ids": [], "v": 0, "first": pos + 1, "len": m,
                   "match": got == data[pos * bps:pos * bps + len(got)]})
        pos += m
    src.close()
    os.remove(path)
    return {"kind": kind, "n": n, "sr": sr, "ev": ev, "fmt": [sw, ch]}


def gen_trace(rng, tier, tmpdir):
    kind = rng.choice(["buffer", "buffer", "raw", "wav", "stdin"])
    sw, ch = rng.choice(FORMATS)
    big = 60 if tier == "quick" else 400
    n = rng.choice([0, 1, 2, rng.randint(0, 12), rng.randint(0, big)])
    while max_ids(sw, ch) < n + 1:
        sw, ch = rng.choice(FORMATS)
    sr = rng.choice([8, 10, 16, 100, 1000, 8000, 16000, 44100])
    src, cleanup = make_source(kind, n, sr, sw, ch, tmpdir, "t", pipe=rng.random() < .5)
    ev = []
    nops = rng.randint(5, 50 if tier == "quick" else 200)
    try:
        for _ in range(nops):
            x = rng.random()
            if x < .12:
                op, arg = "open", 0
            elif x < .2:
                op, arg = "close", 0
            elif x < .6 or kind != "buffer":
                op = "read"
                arg = rng.choice([1, 1, 2, 3, rng.randint(1, n + 2), rng.randint(1, max(1, n // 3 + 1))]
                                 + ([] if kind == "stdin" else [NONE, -1, -rng.randint(1, 5)]))
            else:
                op = rng.choice(["getpos", "setpos", "getms", "setms", "gets", "sets", "rewind"])
                arg = 0
                if op == "setpos":
                    arg = rng.choice([0, n, -n, n + 1, -n - 1, rng.randint(-n - 2, n + 2)])
                elif op == "setms":
                    for _ in range(20):
                        arg = rng.choice([0, rng.randint(-2000, 2000), (1000 * rng.randint(-n - 1, n + 1)) // sr])
                        k = abs(sr * arg) // 1000
                        if arg >= 0 or k > 0:       # no sub-sample negative instants (observation O5)
                            break
                    else:
                        arg = 0
                elif op == "sets":
                    for _ in range(20):
                        arg = rng.choice([0, rng.randint(-16, 16), (8 * rng.randint(-n - 1, n + 1)) // sr])
                        k = abs(sr * arg) // 8
                        if arg >= 0 or k > 0:
                            break
                    else:
                        arg = 0
            ev.append(call(src, op, arg, sw, ch))
        try:
            src.close()
        except Exception:
            pass
    finally:
        cleanup()
    return {"kind": kind, "n": n, "sr": sr, "ev": ev, "fmt": [sw, ch]}


def check(prop, tier, replay=None):
    import_auditok()
    V = Verdict(prop, tier)
    wd = workdir("source_" + prop)
    tmpdir = os.path.join(wd, "audio")
    os.makedirs(tmpdir, exist_ok=True)
    rng = random.Random(SEED * 1000 + 11)
    V.assumptions += [
        "TLC/SANY/CommunityModules, CPython, wave module, the bytes<->sample-id projection (harness/audio.py)",
        "read(0) is not generated (the statement does not define it, observation O3); position_s is exercised on dyadic values, "
        "sub-sample negative instants are not generated (observations O4/O5)",
        "stdin is a BytesIO-backed sys.stdin (no short reads from a real pipe)",
    ]
    t = TIERS[tier]
    cfg = (f'CONSTANTS MaxN = {t["MaxN"]} RateSet = {{8, 10}} KindSet = {{"buffer", "raw", "wav", "stdin"}}\n'
           "SPECIFICATION Spec\nINVARIANT TypeOK\nINVARIANT C11\nCONSTRAINT Export\nCHECK_DEADLOCK FALSE\n")
    res = tlc.run("SourceMC", cfg, wd, name="mc", timeout=1800, mem="8g")
    tlc.require_ok(res, "leg M")
    V.add_model("M", res)
    if res["violated"] or not res["ok"]:
        raise MachineryError(f"leg M: {res['violated']} / {res['error']}\n" + tlc.counterexample(res, 60))
    dead = [a for a in ("Open", "Close", "Read", "GetPos", "SetPos", "GetMs", "SetMs", "GetS", "SetS", "Rewind")
            if res["actions"].get(a, [0, 0])[0] == 0]
    if dead:
        raise MachineryError(f"leg M: actions never taken: {dead}")
    V.cov["exhaustive"] = True
    seen = {}
    for j in res["json"]:
        seen.setdefault(canon(j), j)
    trans = list(seen.values())
    t0 = time.time()
    bad = replay_transitions(trans, tmpdir)
    V.cov["traces_validated_against_impl"] += len(trans)
    V.count(len(trans), (canon(x) for x in trans if x["last"]["k"] != "ok"))
    V.leg("R", transitions=len(trans), mismatches=len(bad), wall_s=round(time.time() - t0, 2))
    for m in bad:
        tr = m["transition"]
        V.violation({"kind": tr["kind"], "n": tr["n"], "prev": tr["prev"], "op": tr["last"]["op"], "arg": tr["last"]["arg"]},
                    f"{tr['kind']} source n={tr['n']} sr={tr['sr']} fmt={m['fmt']} in state {tr['prev']}: {tr['last']['op']}({tr['last']['arg']}) gave "
                    f"{m['got']['k']} {m['got']['ids'] or m['got']['v']} / state {m['post_observed']}; specification: {tr['last']['k']} "
                    f"{tr['last']['ids'] or tr['last']['v']} / state {tr['post']}", {"leg": "R", **m})
    ex = next((x for x in trans if x["last"]["k"] == "blk" and x["prev"]["pos"] > 0), trans[0])
    V.sample({"leg": "R", "transition": ex})

    t0 = time.time()
    traces = [gen_trace(rng, tier, tmpdir) for _ in range(400 if tier == "quick" else 30000)]
    traces += [gen_setter_trace(rng, tier) for _ in range(60 if tier == "quick" else 2000)]
    traces += [big_trace(rng, k_, tmpdir) for k_ in (("raw", "wav") if tier == "quick" else ("raw", "wav", "raw", "wav", "raw", "wav"))]
    tcfg = ('CONSTANTS MaxN = 0 RateSet = {} KindSet = {}\nSPECIFICATION TSpec\nCONSTRAINT Mon\nPOSTCONDITION Post\nCHECK_DEADLOCK FALSE\n')
    for tr_ in traces:
        for x_ in tr_["ev"]:
            x_.setdefault("first", 0)
            x_.setdefault("len", 0)
            x_.setdefault("match", True)
    rows, st = judge("SourceTrace", tcfg, traces, wd, "st", strip=lambda x: {k: x[k] for k in ("kind", "n", "sr", "ev")},
                     weight=lambda x: len(x["ev"]) + sum(len(e["ids"]) for e in x["ev"]) // 10 + (4000 if x["n"] > 1000000 else 0))
    V.cov["states"] += st
    for tr, row in zip(traces, rows):
        if row[2] != row[3] or row[4]:
            i = row[2] - 1
            e = tr["ev"][i] if i < len(tr["ev"]) else None
            for x_ in tr["ev"]:
                x_.setdefault("first", 0); x_.setdefault("len", 0); x_.setdefault("match", True)
            V.violation({"kind": tr["kind"], "n": tr["n"], "ops": [[x["op"], x["arg"]] for x in tr["ev"][:i + 1]]},
                        f"{tr['kind']} source n={tr['n']} sr={tr['sr']} fmt={tr['fmt']}: call #{i} {e} is not what the specification allows "
                        f"after {[(x['op'], x['arg']) for x in tr['ev'][max(0, i - 4):i]]} (C11 monitor failed: {bool(row[4])})",
                        {"leg": "T", **tr, "first_unexplained_event": i})
    V.cov["traces_validated_against_impl"] += len(traces)
    V.count(len(traces), (canon([x["kind"], x["n"], [[e["op"], e["arg"]] for e in x["ev"]]]) for x in traces if any(e["k"] == "blk" for e in x["ev"])))
    V.leg("T", traces=len(traces), events=sum(len(x["ev"]) for x in traces), wall_s=round(time.time() - t0, 2))
    big = max(traces, key=lambda x: len(x["ev"]))
    V.sample({"leg": "T", "kind": big["kind"], "n": big["n"], "sr": big["sr"], "fmt": big["fmt"],
              "calls": [[e["op"], e["arg"], e["k"]] for e in big["ev"][:25]]})
    shutil.rmtree(tmpdir, ignore_errors=True)
    return V.finish(
        rule="leg M: all transitions (state x call x argument) of the abstract source for 4 kinds, n<=MaxN, 2 rates; leg R: one "
             "implementation test per transition (pre-state established on a fresh real source, result and post-state compared); leg T: "
             "seeded call sequences judged by TLC. distinct = canonical transition / call sequence; non-trivial = returns data, a value or an error")
