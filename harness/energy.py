"""C07: a window is active exactly when its log energy reaches the threshold.

leg M : TLC on EnergyMC: every window of the bound (C channels x n samples over a palette) x thresholds
        10*k dB; invariants (monotone in the threshold, any = max over channels, aliases, negative indices,
        errors, -200 dB floor); every window is exported with its verdict vectors.
leg R : one implementation test per exported case and sample width: the window is encoded to bytes and fed
        to the real AudioEnergyValidator for every selector spelling.  Cases lying exactly on a boundary
        are used only where the float computation is exact (mean square 10^(2j); power-of-two channel counts).
leg T : seeded random windows (raw bytes, widths 1/2/4, 1-4 channels) judged by TLC (EnergyTrace decodes
        the bytes itself).  Full-scale 16/32-bit samples overflow TLC's integers: the same formula is
        mirrored in Python integers, the mirror is validated against TLC on every leg-T case (translation
        check) and then decides the extremes.
"""
import os
import random
import time
from fractions import Fraction

from . import tlc
from .common import NCPU, SEED, MachineryError, Verdict, canon, import_auditok, workdir
from .judge import judge

RANGE = {1: (-128, 127), 2: (-32768, 32767), 4: (-2 ** 31, 2 ** 31 - 1)}
NAMES = {"any": [None, "any"], "mix": ["mix", "avg", "average"]}


def enc(vals, sw):
    return b"".join(int(v).to_bytes(sw, "little", signed=True) for v in vals)


# ---- Python mirror of Energy.tla (exact rational arithmetic, no size limit) ---------------------
def mirror_ge(sumsq, n, k2):
    """mean square >= 10^(k2/2)  (k2 = threshold in units of 5 dB), zero energy floored at -200 dB."""
    if sumsq == 0:
        return k2 <= -40
    ms = Fraction(sumsq, n)
    if k2 % 2 == 0:
        return ms >= Fraction(10) ** (k2 // 2)
    return ms * ms >= Fraction(10) ** k2       # ms >= 10^(k2/2)  <=>  ms^2 >= 10^k2


def on_boundary(sumsq, n, k2):
    """True when the mean square is on the threshold or closer to it than 1e-9 (relative): float evaluation
    cannot be trusted there, such cases are only asserted when boundary_usable() says the float path is exact."""
    if sumsq == 0:
        return False
    ms = Fraction(sumsq, n)
    if k2 % 2 == 0:
        ratio = ms / Fraction(10) ** (k2 // 2)
    else:
        ratio = ms * ms / Fraction(10) ** k2
    if ratio == 1:
        return 1                 # exactly on the threshold
    return 2 if abs(ratio - 1) < Fraction(1, 10 ** 9) else 0


def exactly_on(sumsq, n, k2):
    return sumsq != 0 and k2 % 2 == 0 and Fraction(sumsq, n) == Fraction(10) ** (k2 // 2)


def mirror_verdict(vals, C, sel, k2):
    """sel: ('name', str|None) or ('idx', int).  Returns 'T' / 'F' / 'ValueError' and whether the case is a boundary."""
    n = len(vals) // C
    chans = [[vals[i * C + c] for i in range(n)] for c in range(C)]
    ss = [sum(x * x for x in ch) for ch in chans]
    kind, s = sel
    if C == 1:
        return ("T" if mirror_ge(ss[0], n, k2) else "F"), on_boundary(ss[0], n, k2)
    if kind == "name":
        if s in (None, "any", "none"):
            return ("T" if any(mirror_ge(x, n, k2) for x in ss) else "F"), max(on_boundary(x, n, k2) for x in ss)
        if s in ("mix", "avg", "average"):
            sums = [sum(chans[c][i] for c in range(C)) for i in range(n)]
            q = sum(x * x for x in sums)
            return ("T" if mirror_ge(q, n * C * C, k2) else "F"), on_boundary(q, n * C * C, k2)
        return "ValueError", False
    if s >= C or s < -C:
        return "ValueError", False
    c = s + C if s < 0 else s
    return ("T" if mirror_ge(ss[c], n, k2) else "F"), on_boundary(ss[c], n, k2)


def boundary_usable(k2, C, sel, exact=True):
    """A case exactly on the threshold is only asserted where the float computation is exact."""
    if not exact:            # close to the threshold without being on it
        return False
    if k2 % 4 != 0 or k2 > 24:          # mean square 10^(2j), small enough to be exact in float64: sqrt and log10 are exact
        return False
    if sel[0] == "name" and sel[1] in ("mix", "avg", "average") and C not in (1, 2, 4):
        return False
    return True


_VCACHE = {}


def real_verdict(util, data, sw, C, sel, T, fresh=False):
    try:
        key = (T, sw, C, sel)
        v = None if fresh else _VCACHE.get(key)
        if v is None:
            v = util.AudioEnergyValidator(T, sw, C, use_channel=sel[1])
            if len(_VCACHE) < 20000:
                _VCACHE[key] = v       # validators are reused across windows (the statement says verdicts do not depend on history)
        return "T" if v.is_valid(data) else "F"
    except ValueError:
        return "ValueError"
    except Exception as exc:  # noqa
        return type(exc).__name__


_BUFFERS = {}


def mutable_window(rng, data, sw, C, sel, T):
    """The window as the caller may hold it: bytes, or a preallocated bytearray / memoryview / array that is refilled in
    place for every window (the normal pattern of a capture loop) -- one buffer per validator configuration and length."""
    kind = rng.choice(["bytes", "bytes", "bytearray", "memoryview", "array"])
    if kind == "bytes":
        return data
    key = (kind, len(data), sw, C, sel, T)
    buf = _BUFFERS.get(key)
    if buf is None:
        if len(_BUFFERS) > 5000:
            _BUFFERS.clear()
        buf = _BUFFERS[key] = bytearray(len(data))
    buf[:] = data
    if kind == "bytearray":
        return buf
    if kind == "memoryview":
        return memoryview(buf)
    import array
    return memoryview(buf).cast({1: "b", 2: "h", 4: "i"}[sw]) if False else buf


def check(prop, tier, replay=None):
    import_auditok()
    from auditok import util
    V = Verdict(prop, tier)
    wd = workdir("energy")
    rng = random.Random(SEED * 1000 + 7)
    V.assumptions += [
        "TLC/SANY/CommunityModules, CPython, numpy float64 arithmetic away from exact threshold boundaries",
        "TLC integers are 32-bit: leg M/T bound |sample| and window size; full-scale samples are decided by the Python mirror of "
        "Energy.tla, which is validated against TLC on every leg-T case (translation check)",
        "cases exactly on a threshold are asserted only where float evaluation is exact (mean square 10^(2j), 1/2/4 channels for mix)",
    ]
    pal = "PaletteSmall" if tier == "quick" else "PaletteBig"
    cfg = (f"CONSTANTS Palette <- {pal} MaxN = 2 MaxC = 2 Ks <- KsDef\nSPECIFICATION Spec\n"
           "INVARIANT Mono\nINVARIANT AnyIsMax\nINVARIANT Aliases\nINVARIANT NegIdx\nINVARIANT OutOfRange\nINVARIANT Mono1\nINVARIANT Floor\n"
           "CONSTRAINT Export\nCHECK_DEADLOCK TRUE\n")
    res = tlc.run("EnergyMC", cfg, wd, name="mc", timeout=3000, mem="8g")
    tlc.require_ok(res, "leg M")
    V.add_model("M", res)
    if res["violated"] or not res["ok"]:
        raise MachineryError(f"leg M: {res['violated']} / {res['error']}\n" + tlc.counterexample(res, 40))
    V.cov["exhaustive"] = True
    cases = {}
    for j in res["json"]:
        cases.setdefault(canon([j["c"], j["v"]]), j)
    cases = list(cases.values())
    if tier == "thorough":
        cfg3 = cfg.replace("MaxN = 2 MaxC = 2", "MaxN = 1 MaxC = 3")
        res3 = tlc.run("EnergyMC", cfg3, wd, name="mc3", timeout=3000, mem="8g")
        tlc.require_ok(res3, "leg M 3ch")
        V.add_model("M:3ch", res3)
        if res3["violated"] or not res3["ok"]:
            raise MachineryError(f"leg M 3ch: {res3['violated']} / {res3['error']}")
        c3 = {}
        for j in res3["json"]:
            c3.setdefault(canon([j["c"], j["v"]]), j)
        cases += [x for x in c3.values() if x["c"] == 3]

    # ---- leg R: one implementation test per exported case / width / selector spelling
    t0 = time.time()
    nrun = skipped = 0
    mirror_bad = 0
    for ci, j in enumerate(cases):
        C, vals, ks = j["c"], j["v"], j["ks"]
        fit = [w for w in (1, 2, 4) if all(RANGE[w][0] <= v <= RANGE[w][1] for v in vals)]
        for sw in (fit if tier == "thorough" else [fit[ci % len(fit)]]):
            data = enc(vals, sw)
            for fam, vec, sels in (("any", j["any"], [("name", None), ("name", "any")]),
                                   ("mix", j["mix"], [("name", "mix"), ("name", "avg"), ("name", "average")]),
                                   ("first", j["first"], [("idx", 0), ("idx", -C)]),
                                   ("last", j["last"], [("idx", -1), ("idx", C - 1)])):
                sel = sels[(ci + sw) % len(sels)]
                for k, want in zip(ks, vec):
                    mv, bnd = mirror_verdict(vals, C, sel, 2 * k)
                    if mv != want:
                        mirror_bad += 1      # the Python mirror disagrees with TLC: machinery error below
                    if bnd and not boundary_usable(2 * k, C, sel, bnd == 1):
                        skipped += 1
                        continue
                    got = real_verdict(util, data, sw, C, sel, 10 * k)
                    nrun += 1
                    if got != want:
                        V.violation({"vals": vals, "C": C, "sw": sw, "sel": sel, "T": 10 * k},
                                    f"AudioEnergyValidator({10 * k}, sw={sw}, ch={C}, use_channel={sel[1]!r}).is_valid(samples {vals}) = {got}; "
                                    f"specification: {want}", {"leg": "R", "case": j, "sw": sw, "sel": sel, "k": k, "got": got, "want": want})
    if mirror_bad:
        raise MachineryError(f"Python mirror of Energy.tla disagrees with TLC on {mirror_bad} exported verdicts")
    # error outcomes
    errs = 0
    for C in (2, 3, 4):
        for sel in (("idx", C), ("idx", -C - 1), ("name", "left"), ("name", "Any"), ("idx", 99)):
            got = real_verdict(util, enc([1] * C, 2), 2, C, sel, 0)
            errs += 1
            if got != "ValueError":
                V.violation({"C": C, "sel": sel}, f"use_channel={sel[1]!r} with {C} channels: expected ValueError, got {got}", {"leg": "R", "C": C, "sel": sel, "got": got})
    for sel in (("idx", 5), ("name", "left"), ("idx", -3)):
        got = real_verdict(util, enc([100], 2), 2, 1, sel, 0)      # single channel ignores the selection
        errs += 1
        if got != "T":
            V.violation({"C": 1, "sel": sel}, f"single-channel audio must ignore use_channel={sel[1]!r}: got {got}", {"leg": "R", "sel": sel, "got": got})
    V.cov["traces_validated_against_impl"] += nrun + errs
    V.count(nrun + errs, (canon([j["c"], j["v"]]) for j in cases if any(j["v"])))
    V.leg("R", windows=len(cases), verdicts_compared=nrun, boundary_cases_skipped=skipped, error_cases=errs, wall_s=round(time.time() - t0, 2))
    V.sample({"leg": "R", "case": cases[len(cases) // 2]})

    # ---- leg T: random raw windows judged by TLC; mirror translation check; extremes by the mirror
    t0 = time.time()
    tcases = []
    for _ in range(3000 if tier == "quick" else 30000):
        sw = rng.choice([1, 2, 4])
        C = rng.choice([1, 2, 2, 3, 4])
        n = rng.randint(1, 6)
        amp = rng.choice([1, 3, 12, 100, 127] if sw == 1 else [1, 3, 12, 100, 1000, 3000])
        vals = [rng.randint(-amp, amp) if rng.random() < .85 else 0 for _ in range(n * C)]
        if rng.random() < .05:
            vals = [0] * (n * C)
        k = rng.choice([-25, -21, -20, -19, -9, -3, -1, 0, 1, 2, 3, 4, 5, 6, 7, 9, 12])
        r = rng.random()
        if r < .3:
            sel = ("name", rng.choice([None, "any"]))
        elif r < .6:
            sel = ("name", rng.choice(["mix", "avg", "average"]))
        elif r < .95:
            sel = ("idx", rng.randint(-C - 1, C))
        else:
            sel = ("name", rng.choice(["left", "ANY", ""]))
        mv, bnd = mirror_verdict(vals, C, sel, 2 * k)
        if bnd and not boundary_usable(2 * k, C, sel, bnd == 1):
            continue
        data = enc(vals, sw)
        got = real_verdict(util, mutable_window(rng, data, sw, C, sel, 10 * k), sw, C, sel, 10 * k)
        tcases.append({"b": list(data), "sw": sw, "c": C, "selk": sel[0], "name": ("none" if sel[1] is None else sel[1]) if sel[0] == "name" else "",
                       "idx": sel[1] if sel[0] == "idx" else 0, "k": k, "got": got, "vals": vals, "mirror": mv})
    tcfg = "SPECIFICATION Spec\nCONSTRAINT Mon\nPOSTCONDITION Post\nCHECK_DEADLOCK FALSE\n"
    rows, st = judge("EnergyTrace", tcfg, tcases, wd, "en", weight=lambda x: 1,
                     strip=lambda x: {k: x[k] for k in ("b", "sw", "c", "selk", "name", "idx", "k", "got")})
    V.cov["states"] += st
    disagree = 0
    for cse, row in zip(tcases, rows):
        tlc_ok = row[2] == 1
        # translation check: TLC accepts `got` exactly when the mirror predicts `got`
        if tlc_ok != (cse["mirror"] == cse["got"]):
            disagree += 1
        if not tlc_ok:
            V.violation({"vals": cse["vals"], "C": cse["c"], "sw": cse["sw"], "sel": [cse["selk"], cse["name"], cse["idx"]], "k": cse["k"]},
                        f"AudioEnergyValidator({10 * cse['k']}, sw={cse['sw']}, ch={cse['c']}, use_channel={cse['name'] if cse['selk'] == 'name' else cse['idx']!r})"
                        f".is_valid(samples {cse['vals']}) = {cse['got']}, rejected by Energy.tla (mirror says {cse['mirror']})",
                        {"leg": "T", "case": {k: v for k, v in cse.items()}})
    if disagree:
        raise MachineryError(f"translation check failed: Python mirror and TLC disagree on {disagree} of {len(tcases)} cases")
    # extremes: full-scale samples, decided by the (now validated) mirror; thresholds in 5 dB steps
    ext = 0
    for _ in range(1500 if tier == "quick" else 15000):
        sw = rng.choice([1, 2, 4])
        lo, hi = RANGE[sw]
        C = rng.choice([1, 2, 3, 4])
        n = rng.randint(1, 40)
        pool = [lo, hi, lo + 1, hi - 1, 0, 1, -1, hi // 2, lo // 2]
        vals = [rng.choice(pool) if rng.random() < .7 else rng.randint(lo, hi) for _ in range(n * C)]
        k2 = rng.randint(-45, 2 * (19 if sw == 4 else 10 if sw == 2 else 5))
        r = rng.random()
        sel = ("name", rng.choice([None, "any"])) if r < .35 else ("name", rng.choice(["mix", "avg", "average"])) if r < .65 else ("idx", rng.randint(-C, C - 1))
        mv, bnd = mirror_verdict(vals, C, sel, k2)
        if bnd and not boundary_usable(k2, C, sel, bnd == 1):
            continue
        got = real_verdict(util, enc(vals, sw), sw, C, sel, 5 * k2)
        ext += 1
        if got != mv:
            V.violation({"vals": vals[:12], "C": C, "sw": sw, "sel": sel, "T": 5 * k2},
                        f"AudioEnergyValidator({5 * k2}, sw={sw}, ch={C}, use_channel={sel[1]!r}).is_valid({n} full-scale samples/channel "
                        f"{vals[:8]}...) = {got}; exact arithmetic: {mv}", {"leg": "T-extremes", "vals": vals, "C": C, "sw": sw, "sel": sel, "T": 5 * k2, "got": got, "want": mv})
    V.cov["traces_validated_against_impl"] += len(tcases) + ext
    V.count(len(tcases) + ext, (canon([c_["vals"], c_["c"], c_["sw"], c_["k"], c_["selk"], c_["name"], c_["idx"]]) for c_ in tcases if any(c_["vals"])))
    V.leg("T", cases_judged_by_tlc=len(tcases), mirror_vs_tlc_disagreements=disagree, extreme_cases_by_mirror=ext, wall_s=round(time.time() - t0, 2))
    V.sample({"leg": "T", "case": {k: tcases[0][k] for k in ("vals", "sw", "c", "selk", "name", "idx", "k", "got")}})
    return V.finish(
        rule="leg M: every window of the bound x thresholds; leg R: every exported case x width x selector family against AudioEnergyValidator; "
             "leg T: seeded raw windows judged by TLC + full-scale windows decided by the validated Python mirror. distinct = canonical "
             "(samples, channels, width, selector, threshold); non-trivial = window not all-zero")
